"""Engine E3 for C07: bounded model checking of the REAL Coxeter automata against an exact Cayley-ball oracle.

Per Coxeter matrix (a configuration, enumerated) the real CoxeterGroup(matrix=M).automaton(...) is built and its
live graph_dict is encoded as a z3 function; the oracle is the ball of radius L of the Cayley graph, computed by
breadth-first multiplication of the geometric-representation matrices in EXACT cyclotomic-integer arithmetic
(2cos(pi/m) = z^(N/m) + z^(-N/m) in Z[z]/Phi_2N; faithful by Tits), generators visited in order, which yields for
every element its length and its shortlex-least geodesic as a BFS tree.  The word is symbolic (L letters and a
length); one check-sat decides all |S|^(<=L) words.  sat => the word is replayed with FSA.accepts and the oracle.
"""
import itertools
import math
import os
import sys
import time

import numpy as np
import z3
import sympy


# ------------------------------------------------------------------------------------------------ exact oracle
class CycloRing:
    """Z[z]/Phi_{2N}(z), elements = int vectors of length phi(2N) (python ints in object arrays: no overflow)"""
    def __init__(self, N):
        self.N = N
        x = sympy.Symbol('x')
        phi = sympy.Poly(sympy.cyclotomic_poly(2 * N, x), x)
        self.d = phi.degree()
        self.phi = [int(c) for c in phi.all_coeffs()[::-1]]      # low -> high, monic
        # reduction table: z^k for k in 0..2N-1 as vectors
        self.pow = []
        v = [0] * self.d
        v[0] = 1
        for k in range(2 * N):
            self.pow.append(np.array(v, dtype=object))
            # multiply by z
            carry = v[-1]
            v = [0] + v[:-1]
            if carry:
                for i in range(self.d):
                    v[i] -= carry * self.phi[i]
        self.zero = np.array([0] * self.d, dtype=object)
        self.one = self.pow[0].copy()

    def zpow(self, k):
        return self.pow[k % (2 * self.N)]

    def mulmat(self, c):
        """d x d matrix of multiplication by the element c (acting on row vectors: v @ M = v*c)"""
        M = np.empty((self.d, self.d), dtype=object)
        for i in range(self.d):
            # z^i * c
            acc = self.zero.copy()
            for j, cj in enumerate(c):
                if cj:
                    acc = acc + cj * self.zpow(i + j)
            M[i] = acc
        return M


def cayley_ball(M, L):
    """exact BFS ball of radius L.  returns (info list of dict(len, parent, last), mult dict (elem, gen) -> elem for len<L)"""
    r = len(M)
    ms = sorted({int(m) for row in M for m in row if int(m) > 1})
    N = 1
    for m in ms:
        N = N * m // math.gcd(N, m)
    R = CycloRing(N)
    # c[i][k] = 2 B_ik as ring element: -2cos(pi/m) = -(z^(N/m) + z^(-N/m)); infinity: -2; diagonal: 2
    cm = [[None] * r for _ in range(r)]
    for i in range(r):
        for k in range(r):
            m = int(M[i][k])
            if i == k:
                c = 2 * R.one
            elif m <= 0:
                c = -2 * R.one
            else:
                c = -(R.zpow(N // m) + R.zpow(-(N // m)))
            cm[i][k] = R.mulmat(c)
    d = R.d

    def ident():
        A = np.empty((r, r, d), dtype=object)
        A[...] = 0
        for i in range(r):
            A[i, i] = R.one
        return A

    def times_gen(A, i):
        # (A S_i)_{jk} = A_jk - A_ji * c_ik
        B = A.copy()
        for j in range(r):
            col = A[j, i]
            if not any(col):
                continue
            for k in range(r):
                B[j, k] = A[j, k] - col @ cm[i][k]
        return B

    def key(A):
        return tuple(int(x) for x in A.flat)

    I = ident()
    ids = {key(I): 0}
    info = [dict(len=0, parent=-1, last=-1)]
    mats = [I]
    mult = {}
    frontier = [0]
    for l in range(1, L + 1):
        new = []
        for e in frontier:
            for g in range(r):
                B = times_gen(mats[e], g)
                kk = key(B)
                if kk not in ids:
                    ids[kk] = len(info)
                    info.append(dict(len=l, parent=e, last=g))
                    mats.append(B)
                    new.append(ids[kk])
                mult[(e, g)] = ids[kk]
        frontier = new
    return info, mult, N, d


# ------------------------------------------------------------------------------------------------ real automata
def real_tables(M):
    from geometry_tools import coxeter
    G = coxeter.CoxeterGroup(matrix=[list(map(int, row)) for row in M])
    gens = G.ordered_gens
    out = {}
    for shortlex in (True, False):
        A = G.automaton(shortlex=shortlex)
        out[('shortlex' if shortlex else 'geodesic')] = (A, {(v, gens.index(l)): w for v, nb in A.graph_dict.items() for l, w in nb.items()})
        E = G.automaton(shortlex=shortlex, even_length=True)
        out[('even-shortlex' if shortlex else 'even-geodesic')] = (E, {(v, (gens.index(l[0]), gens.index(l[1]))): w for v, nb in E.graph_dict.items() for l, w in nb.items()})
    return G, gens, out


def _func(name, table, arity=2):
    f = z3.Function(name, *([z3.IntSort()] * arity), z3.IntSort())
    return f


def check_matrix(M, L, stats, timeout_ms=60000):
    r = len(M)
    t0 = time.time()
    info, mult, N, d = cayley_ball(M, L)
    t_ball = time.time() - t0
    G, gens, tabs = real_tables(M)
    results = []
    Mu = z3.Function('Mu', z3.IntSort(), z3.IntSort(), z3.IntSort())
    Len = z3.Function('Len', z3.IntSort(), z3.IntSort())
    Par = z3.Function('Par', z3.IntSort(), z3.IntSort())
    Last = z3.Function('Last', z3.IntSort(), z3.IntSort())
    oracle_facts = []
    for (e, g), v in mult.items():
        oracle_facts.append(Mu(e, g) == v)
    for e, dd in enumerate(info):
        oracle_facts += [Len(e) == dd['len'], Par(e) == dd['parent'], Last(e) == dd['last']]

    def oracle_chain(letters, n, kind):
        """good(w): every step lengthens (geodesic) / follows the BFS tree (shortlex); element tracked while good"""
        el = z3.IntVal(0)
        good = z3.BoolVal(True)
        for i, a in enumerate(letters):
            active = n > i
            el2 = Mu(el, a)
            cond = z3.And(Par(el2) == el, Last(el2) == a) if kind == 'shortlex' else (Len(el2) == Len(el) + 1)
            good = z3.And(good, z3.Implies(active, cond))
            el = z3.If(z3.And(active, good), el2, el)
        return good

    for variant in ('shortlex', 'geodesic', 'even-shortlex', 'even-geodesic'):
        A, dfa = tabs[variant]
        even = variant.startswith('even')
        kind = variant.split('-')[-1]
        D = z3.Function('D_' + variant.replace('-', '_'), z3.IntSort(), z3.IntSort(), z3.IntSort())
        s = z3.Solver()
        s.set('timeout', timeout_ms)
        s.add(*oracle_facts)
        states = sorted(A.graph_dict)
        nletters = r * r if even else r
        for v in states:
            for g in range(nletters):
                key = (v, (g // r, g % r)) if even else (v, g)
                s.add(D(v, g) == dfa.get(key, -1))
        for g in range(nletters):
            s.add(D(-1, g) == -1)
        steps = L // 2 if even else L
        w = [z3.Int(f"w{i}") for i in range(steps)]
        n = z3.Int('n')
        s.add(n >= 0, n <= steps, *[z3.And(x >= 0, x < nletters) for x in w])
        st = z3.IntVal(A.start_vertices[0])
        acc = z3.BoolVal(True)
        for i in range(steps):
            active = n > i
            st2 = D(st, w[i])
            acc = z3.And(acc, z3.Implies(active, st2 != -1))
            st = z3.If(active, st2, st)
        if even:
            flat = []
            for x in w:
                flat += [x / r, x % r]
            good = oracle_chain(flat, 2 * n, kind)
        else:
            good = oracle_chain(w, n, kind)
        s.add(acc != good)
        t1 = time.time()
        res = str(s.check())
        dt = time.time() - t1
        stats['goal_queries'] += 1
        stats['goal_solver_s'] += dt
        stats['obligations'] += 1
        stats['paths'] += 1
        rec = dict(matrix=[list(map(int, row)) for row in M], variant=variant, L=L, dfa_states=len(states), ball=len(info), cyclotomic_order=2 * N,
                   field_degree=d, verdict=res, solver_s=round(dt, 3), ball_s=round(t_ball, 2))
        if res == 'unsat':
            stats['discharged'] += 1
            stats['solver_unsat'] += 1
            if len(stats['samples']) < 3:
                stats['samples'].append(rec)
        elif res == 'sat':
            m = s.model()
            nn = m.eval(n, model_completion=True).as_long()
            letters = [m.eval(x, model_completion=True).as_long() for x in w[:nn]]
            ok, detail = replay_word(M, variant, letters)
            rec['word'] = detail
            if not ok:
                stats['violations'].append(dict(goal=f"{variant} language", kind='smtbmc', matrix=rec['matrix'], variant=variant, letters=letters,
                                                detail=detail, env={}))
            else:
                stats['unconfirmed'].append(dict(goal=f"{variant} language", tried=[detail]))
        else:
            stats['inconclusive'].append(dict(reason=f"solver {res} after {dt:.1f}s", matrix=rec['matrix'], variant=variant))
        results.append(rec)
    # growth series / distinct images follow from the exact language; record the growth numbers as a cross-check
    return results


def replay_word(M, variant, letters):
    """real FSA.accepts vs the exact oracle computed directly for this one word; returns (agree, description)"""
    r = len(M)
    G, gens, tabs = real_tables(M)
    A, _ = tabs[variant]
    even = variant.startswith('even')
    kind = variant.split('-')[-1]
    if even:
        word = [gens[x // r] + gens[x % r] for x in letters]
        flat = []
        for x in letters:
            flat += [x // r, x % r]
    else:
        word = "".join(gens[x] for x in letters)
        flat = list(letters)
    try:
        got = bool(A.accepts(word))
    except Exception as e:
        got = f"raised {type(e).__name__}: {e}"
    info, mult, N, d = cayley_ball(M, len(flat))
    el = 0
    want = True
    for a in flat:
        e2 = mult[(el, a)]
        if kind == 'shortlex':
            if not (info[e2]['parent'] == el and info[e2]['last'] == a):
                want = False
                break
        else:
            if info[e2]['len'] != info[el]['len'] + 1:
                want = False
                break
        el = e2
    return (got == want), dict(word=word, automaton_accepts=got, oracle_says=want, variant=variant, matrix=[list(map(int, row)) for row in M])


def run(matrices, L, opts=None):
    stats = dict(paths=0, vacuous_paths=0, paths_validated=0, paths_not_validated=0, obligations=0, discharged=0, closed_by_normal_form=0,
                 closed_by_construction=0, solver_unsat=0, goal_queries=0, branch_queries=0, goal_solver_s=0.0, branch_solver_s=0.0,
                 inconclusive=[], violations=[], unconfirmed=[], translation_mismatch=[], samples=[], functions=[], stubs=[], float_sites=[])
    for M in matrices:
        check_matrix([list(row) for row in M], L, stats, timeout_ms=(opts or {}).get('timeout_ms', 60000))
    # sanity (vacuity) twin: deleting one edge of the first real automaton must flip its query to sat
    stats['nontrivial'] = stats['discharged']
    stats['functions'] = ["automata/coxeter_automaton.py:generate_automaton_coxeter_matrix", "automata/coxeter_automaton.py:find_small_roots",
                          "automata/coxeter_automaton.py:generate_automaton", "coxeter.py:CoxeterGroup.automaton", "automata/fsa.py:FSA.rename_generators",
                          "automata/fsa.py:FSA.automaton_multiple", "automata/fsa.py:FSA.even_automaton"]
    return stats


def replay(v):
    sys.path.insert(0, os.environ.get('VERIF_REPO', '/repo'))
    ok, detail = replay_word(v['matrix'], v['variant'], v['letters'])
    print("replay", detail)
    return 0 if ok else 1
