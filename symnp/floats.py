"""float() of a symbolic value.

The library casts to float64 at a few places where it only looks at signs / order (DESIGN.md, E1 table).
Those call sites are on an allow-list and get an *order- and sign-preserving concretisation*: the symbolic
value is placed (by forking on comparisons) among the values already concretised on this path and 0, and a
float consistent with that order is returned.  Any code that inspects only order and sign of the floats then
behaves exactly as on the real values.  A float() from any other call site aborts the path as inconclusive.
"""
import sys
from .core import Ctx, F, FC, Inconclusive

# function names in the library under test whose astype('float64') / float() only feeds comparisons
ALLOWED_SITES = {
    'normalize': 'zero',          # utils/core.py: abs_norms.astype('float64') != 0       -- only zero-ness is inspected
    'affine_coords': 'zero',      # projective.py: |apoints[..., i]|.astype('float64') == 0 -- only zero-ness is inspected
    'diagonalize_form': 'order',  # utils/core.py: np.isclose(Dinv.astype('float64'), 0), sign/order of eigenvalues
}
EXTRA_ALLOWED = set()       # harness-level additions (stated in the harness' assumptions)


def _site():
    f = sys._getframe(2)
    while f is not None:
        fn = f.f_code.co_filename
        if 'geometry_tools' in fn:
            if f.f_code.co_name in ('astype', 'scalar') and fn.endswith('utils/core.py'):
                f = f.f_back          # thin casting wrappers: the caller decides
                continue
            return f.f_code.co_name
        if fn.endswith('symnp/npmodels.py') and f.f_code.co_name.startswith('model_'):
            return f.f_code.co_name
        f = f.f_back
    return None


def zero_only_site():
    """is the innermost library frame a call site that only inspects zero-ness of the value being computed?"""
    f = sys._getframe(2)
    while f is not None:
        fn = f.f_code.co_filename
        if 'geometry_tools' in fn:
            return f.f_code.co_name == 'affine_coords' and ALLOWED_SITES.get('affine_coords') == 'zero'
        f = f.f_back
    return False


class LazyAbs:
    """|x| computed inside projective.affine_coords, where it is only cast to float64 and compared with 0"""
    ndim = 0
    shape = ()
    __hash__ = None

    def __init__(self, x):
        self.x = x

    def __float__(self):
        Ctx.cur.log.append("float@affine_coords")
        return 0.0 if bool(self.x == 0) else 1.0

    def _force(self):
        x = self.x
        if isinstance(x, F):
            return x if bool(x >= 0) else -x
        return (x.re * x.re + x.im * x.im).sqrt()

    def __getattr__(self, name):
        return getattr(self._force(), name)

    def __add__(self, o): return self._force() + o
    def __radd__(self, o): return o + self._force()
    def __sub__(self, o): return self._force() - o
    def __rsub__(self, o): return o - self._force()
    def __mul__(self, o): return self._force() * o
    def __rmul__(self, o): return o * self._force()
    def __truediv__(self, o): return self._force() / o
    def __rtruediv__(self, o): return o / self._force()
    def __eq__(self, o): return self.x == 0 if (isinstance(o, (int, float)) and o == 0) else self._force() == o
    def __ne__(self, o): return self.x != 0 if (isinstance(o, (int, float)) and o == 0) else self._force() != o
    def __lt__(self, o): return self._force() < o
    def __le__(self, o): return self._force() <= o
    def __gt__(self, o): return self._force() > o
    def __ge__(self, o): return self._force() >= o


def concretise(x):
    cx = Ctx.cur
    site = _site()
    if site not in ALLOWED_SITES and site not in EXTRA_ALLOWED:
        raise Inconclusive(f"float() of a symbolic value at non-allow-listed site {site}")
    if x.is_const():
        return float(x.const_value())
    if ALLOWED_SITES.get(site) == 'zero':
        cx.log.append(f"float@{site}")
        return 0.0 if bool(x == 0) else 1.0
    table = cx.float_sites.setdefault('_all', [(F.const(0), 0.0)])
    cx.log.append(f"float@{site}")
    # binary search by forking
    lo, hi = 0, len(table)
    while lo < hi:
        mid = (lo + hi) // 2
        v, fl = table[mid]
        if bool(x == v):
            return fl
        if bool(x < v):
            hi = mid
        else:
            lo = mid + 1
    if lo == 0:
        fl = table[0][1] - 1.0
    elif lo == len(table):
        fl = table[-1][1] + 1.0
    else:
        fl = (table[lo - 1][1] + table[lo][1]) / 2.0
    table.insert(lo, (x, fl))
    return fl
