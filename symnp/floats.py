"""float() of a symbolic value.

The library casts to float64 at a few places where it only looks at signs / order (DESIGN.md, E1 table).
Those call sites are on an allow-list and get an *order- and sign-preserving concretisation*: the symbolic
value is placed (by forking on comparisons) among the values already concretised on this path and 0, and a
float consistent with that order is returned.  Any code that inspects only order and sign of the floats then
behaves exactly as on the real values.  A float() from any other call site aborts the path as inconclusive.
"""
import sys
from .core import Ctx, F, Inconclusive

# function names in the library under test whose astype('float64') / float() only feeds comparisons
ALLOWED_SITES = {
    'normalize',            # utils/core.py: abs_norms.astype('float64') != 0
    'affine_coords',        # projective.py: apoints[..., i].astype('float64') == 0
    'diagonalize_form',     # utils/core.py: np.isclose(Dinv.astype('float64'), 0), sign/order of eigenvalues
}
EXTRA_ALLOWED = set()       # harness-level additions (stated in the harness' assumptions)


def _site():
    f = sys._getframe(2)
    while f is not None:
        fn = f.f_code.co_filename
        if 'geometry_tools' in fn:
            if f.f_code.co_name in ('astype', 'scalar') and fn.endswith('utils/core.py'):
                f = f.f_back          # thin casting wrappers: the caller decides
                continue
            return f.f_code.co_name
        if fn.endswith('symnp/npmodels.py') and f.f_code.co_name.startswith('model_'):
            return f.f_code.co_name
        f = f.f_back
    return None


def concretise(x):
    cx = Ctx.cur
    site = _site()
    if site not in ALLOWED_SITES and site not in EXTRA_ALLOWED:
        raise Inconclusive(f"float() of a symbolic value at non-allow-listed site {site}")
    if x.is_const():
        return float(x.const_value())
    table = cx.float_sites.setdefault('_all', [(F.const(0), 0.0)])
    cx.log.append(f"float@{site}")
    # binary search by forking
    lo, hi = 0, len(table)
    while lo < hi:
        mid = (lo + hi) // 2
        v, fl = table[mid]
        if bool(x == v):
            return fl
        if bool(x < v):
            hi = mid
        else:
            lo = mid + 1
    if lo == 0:
        fl = table[0][1] - 1.0
    elif lo == len(table):
        fl = table[-1][1] + 1.0
    else:
        fl = (table[lo - 1][1] + table[lo][1]) / 2.0
    table.insert(lo, (x, fl))
    return fl
