"""symnp.core -- symbolic real/complex scalars that live inside numpy object arrays.

Engine E1 of DESIGN.md.  A symbolic scalar ``F`` is a canonical reduced fraction of sparse multivariate
polynomials with rational coefficients (sympy PolyRing / FracField) over input variables and algebraic
atoms (square roots, roots of minimal polynomials).  NumPy evaluates arithmetic on ``dtype=object`` arrays by
calling the Python operators / same-named methods of the elements, so the unmodified library code runs on
them.  ``bool()`` of a comparison forks the path (DFS by replay, see ``explore``).

z3 is used for path feasibility, for goals that the normal form does not close, for sign goals, for
definedness obligations and for models (witnesses / counterexamples).
"""
import fractions
import itertools
import sys
import time

import numpy as np
import z3
import mpmath
from sympy.polys.rings import ring
from sympy.polys.domains import QQ

mpmath.mp.dps = 40
Fraction = fractions.Fraction


def zcheck(solver, timeout_ms):
    """solver.check() with a watchdog: nlsat does not always honour z3's own timeout, so a timer thread interrupts the
    context shortly after the deadline (the verdict is then 'unknown')."""
    import threading
    solver.set('timeout', int(timeout_ms))
    timer = threading.Timer(timeout_ms / 1000.0 + 0.5, solver.ctx.interrupt)
    timer.daemon = True
    timer.start()
    try:
        return str(solver.check())
    except z3.Z3Exception:
        return 'unknown'
    finally:
        timer.cancel()


class PathAbort(BaseException):
    """the current path is infeasible -- drop it silently"""


class Inconclusive(BaseException):
    """the engine cannot model something on this path; the path is reported inconclusive, never a violation"""
    def __init__(self, reason):
        BaseException.__init__(self, reason)
        self.reason = reason


def _walk_cause(e, cls):
    seen = set()
    while e is not None and id(e) not in seen:
        seen.add(id(e))
        if isinstance(e, cls):
            return e
        e = e.__cause__ or e.__context__
    return None


# ------------------------------------------------------------------------------------------------
# context
# ------------------------------------------------------------------------------------------------
class Ctx:
    """one symbolic execution (one path)."""
    cur = None

    def __init__(self, prefix=(), pending=None, nspare=24, branch_timeout_ms=3000, max_vars=48):
        self.prefix = list(prefix)
        self.pending = pending if pending is not None else []
        self.trace = []
        self.bt = branch_timeout_ms
        self.nvar = max_vars
        self.nspare = nspare
        # generators: atoms first (highest in lex order), then input slots
        self.anames = [f"_a{i}" for i in range(nspare)]
        self.vnames = [f"_v{i}" for i in range(max_vars)]
        self.R = ring(self.anames + self.vnames, QQ)[0]
        self.K = self.R.to_field()
        self.gens = dict(zip(self.anames + self.vnames, self.R.gens))
        self.index = {n: i for i, n in enumerate(self.anames + self.vnames)}
        self.used_atoms = 0
        self.used_vars = 0
        self.var_alias = {}          # user name -> slot name
        self.alias_of = {}           # slot name -> user name
        self.atoms = {}              # atom slot name -> dict(kind, ...)
        self.atomkey = {}
        self.z3v = {}
        self.pc = []                 # list of SymBool (already oriented) -- path condition incl. assumptions
        self.pc_tags = []
        self.side = []               # z3 constraints defining atoms
        self.oblig = []              # definedness obligations: (kind, F, where)
        self.log = []
        self.float_sites = {}
        self.nsolver = 0
        self.tsolver = 0.0
        self.stub_calls = []
        self.fresh_values = {}       # for stubs: name -> F
        self.meta = {}

    # ---- variables
    def var(self, name):
        if name not in self.var_alias:
            if self.used_vars >= self.nvar:
                raise Inconclusive("out of variable slots")
            slot = self.vnames[self.used_vars]
            self.used_vars += 1
            self.var_alias[name] = slot
            self.alias_of[slot] = name
            self.z3v[slot] = z3.Real(name)
        return F(self.K(self.gens[self.var_alias[name]]))

    def new_atom(self, kind, **data):
        if self.used_atoms >= self.nspare:
            raise Inconclusive("out of atom slots")
        # atoms are allocated from the END of the atom block so that later (nested) atoms are higher in lex order
        slot = self.anames[self.nspare - 1 - self.used_atoms]
        self.used_atoms += 1
        self.atoms[slot] = dict(kind=kind, order=self.used_atoms, **data)
        self.alias_of[slot] = f"{kind}{self.used_atoms}"
        self.z3v[slot] = z3.Real(f"_{kind}{self.used_atoms}")
        return slot

    # ---- polynomial -> z3
    def p2z(self, p):
        terms = []
        names = self.anames + self.vnames
        for mon, c in p.terms():
            t = None
            for i, e in enumerate(mon):
                if e:
                    v = self.z3v[names[i]]
                    for _ in range(e):
                        t = v if t is None else t * v
            cf = z3.RealVal(Fraction(int(c.numerator), int(c.denominator)))
            if t is None:
                t = cf
            elif c != 1:
                t = cf * t
            terms.append(t)
        if not terms:
            return z3.RealVal(0)
        return z3.Sum(terms) if len(terms) > 1 else terms[0]

    def base_constraints(self):
        out = list(self.side)
        for b in self.pc:
            out.append(b.z3())
        return out

    def solver(self, timeout_ms=None):
        s = z3.Solver()
        s.set('timeout', int(timeout_ms if timeout_ms is not None else self.bt))
        s.add(*self.base_constraints())
        return s

    # ---- branching
    def decide(self, sb):
        i = len(self.trace)
        if i < len(self.prefix):
            choice = self.prefix[i]
        else:
            t = time.time()
            s = self.solver()
            c = sb.z3()
            s.push(); s.add(c); rt = zcheck(s, self.bt); s.pop()
            s.push(); s.add(z3.Not(c)); rf = zcheck(s, self.bt); s.pop()
            self.nsolver += 2
            self.tsolver += time.time() - t
            opts = [b for b, r in ((True, rt), (False, rf)) if r != 'unsat']
            if not opts:
                raise PathAbort()
            choice = opts[0]
            if len(opts) == 2:
                self.pending.append(self.trace + [not choice])
        self.trace.append(choice)
        self.pc.append(sb if choice else ~sb)
        self.pc_tags.append('branch')
        return choice

    def assume(self, sb, tag='assume'):
        if isinstance(sb, (bool, np.bool_)):
            if not sb:
                raise PathAbort()
            return
        self.pc.append(sb)
        self.pc_tags.append(tag)

    # ---- numeric evaluation at a witness
    def evaluator(self, env):
        return Evaluator(self, env)


class Evaluator:
    """evaluate F values at a numeric assignment of the input variables (mpmath, 40 digits);
    atoms are recomputed from their definitions, not read from the solver model."""
    def __init__(self, cx, env):
        self.cx = cx
        self.val = {}
        for name, slot in cx.var_alias.items():
            if name in env:
                v = env[name]
                if isinstance(v, Fraction):
                    v = mpmath.mpf(v.numerator) / mpmath.mpf(v.denominator)
                self.val[slot] = mpmath.mpf(v)
        self.names = cx.anames + cx.vnames

    def slot(self, s):
        if s in self.val:
            return self.val[s]
        a = self.cx.atoms.get(s)
        if a is None:
            raise KeyError(f"no value for {self.cx.alias_of.get(s, s)}")
        if a['kind'] == 'sqrt':
            r = self.f(a['radicand'])
            v = mpmath.sqrt(r) if r >= 0 else mpmath.mpf('nan')
        elif a['kind'] == 'root':
            v = mpmath.mpf(a['value'])
        elif a['kind'] == 'free':
            raise KeyError(f"free atom {s} has no value")
        else:
            raise KeyError(a['kind'])
        self.val[s] = v
        return v

    def poly(self, p):
        tot = mpmath.mpf(0)
        for mon, c in p.terms():
            t = mpmath.mpf(int(c.numerator)) / mpmath.mpf(int(c.denominator))
            for i, e in enumerate(mon):
                if e:
                    t = t * self.slot(self.names[i]) ** e
            tot += t
        return tot

    def f(self, v):
        if isinstance(v, F):
            v = v.v
        return self.poly(v.numer) / self.poly(v.denom)

    def any(self, x):
        """numeric value (python float / complex) of a symbolic or concrete scalar"""
        if isinstance(x, F):
            return float(self.f(x))
        if isinstance(x, FC):
            return complex(float(self.f(x.re)), float(self.f(x.im)))
        if hasattr(x, 'evalf_with'):
            return x.evalf_with(self)
        return x


# ------------------------------------------------------------------------------------------------
# symbolic booleans
# ------------------------------------------------------------------------------------------------
class SymBool:
    __slots__ = ('op', 'args')
    # op in {'cmp', 'and', 'or', 'not', 'const'}; cmp args = (F diff, relation) meaning diff REL 0

    def __init__(self, op, *args):
        self.op = op
        self.args = args

    def z3(self):
        if self.op == 'cmp':
            d, rel = self.args
            cx = Ctx.cur
            n = cx.p2z(d.v.numer)
            if rel in ('==', '!='):
                return n == 0 if rel == '==' else n != 0
            den = d.v.denom
            if den.is_ground:
                t = n if den.LC > 0 else -n
            else:
                t = n * cx.p2z(den)
            return {'<': t < 0, '<=': t <= 0, '>': t > 0, '>=': t >= 0}[rel]
        if self.op == 'and':
            return z3.And(*[a.z3() for a in self.args])
        if self.op == 'or':
            return z3.Or(*[a.z3() for a in self.args])
        if self.op == 'not':
            return z3.Not(self.args[0].z3())
        if self.op == 'const':
            return z3.BoolVal(self.args[0])
        raise ValueError(self.op)

    def evalf(self, ev, margin=0):
        """three-valued numeric evaluation: True / False / None (too close to the boundary)"""
        if self.op == 'cmp':
            d, rel = self.args
            x = ev.f(d)
            if mpmath.isnan(x):
                return None
            if rel in ('==', '!='):
                # 40-digit arithmetic: exact zeros of rational data evaluate to (almost) exactly 0
                if abs(x) < mpmath.mpf('1e-25'):
                    return rel == '=='
                if abs(x) <= margin:
                    return None
                return rel == '!='
            if abs(x) <= margin:
                return None if margin else {'<': False, '<=': True, '>': False, '>=': True}[rel]
            return {'<': x < 0, '<=': x <= 0, '>': x > 0, '>=': x >= 0}[rel]
        if self.op == 'and':
            vs = [a.evalf(ev, margin) for a in self.args]
            if any(v is False for v in vs):
                return False
            return None if any(v is None for v in vs) else True
        if self.op == 'or':
            vs = [a.evalf(ev, margin) for a in self.args]
            if any(v is True for v in vs):
                return True
            return None if any(v is None for v in vs) else False
        if self.op == 'not':
            v = self.args[0].evalf(ev, margin)
            return None if v is None else (not v)
        if self.op == 'const':
            return self.args[0]

    def describe(self):
        if self.op == 'cmp':
            d, rel = self.args
            return f"{d.pretty()} {rel} 0"
        if self.op == 'not':
            return f"not({self.args[0].describe()})"
        if self.op == 'const':
            return str(self.args[0])
        return f"{self.op}(" + ", ".join(a.describe() for a in self.args) + ")"

    def __bool__(self):
        if self.op == 'const':
            return self.args[0]
        cx = Ctx.cur
        if cx is None:
            raise RuntimeError("SymBool used outside a symbolic context")
        return cx.decide(self)

    def __invert__(self):
        if self.op == 'cmp':
            d, rel = self.args
            return SymBool('cmp', d, {'<': '>=', '<=': '>', '>': '<=', '>=': '<', '==': '!=', '!=': '=='}[rel])
        if self.op == 'not':
            return self.args[0]
        if self.op == 'const':
            return SymBool('const', not self.args[0])
        return SymBool('not', self)

    @staticmethod
    def lift(o):
        if isinstance(o, SymBool):
            return o
        if isinstance(o, (bool, np.bool_)):
            return SymBool('const', bool(o))
        return None

    def __and__(self, o):
        o = SymBool.lift(o)
        if o is None:
            return NotImplemented
        if o.op == 'const':
            return self if o.args[0] else o
        if self.op == 'const':
            return o if self.args[0] else self
        return SymBool('and', self, o)

    def __or__(self, o):
        o = SymBool.lift(o)
        if o is None:
            return NotImplemented
        if o.op == 'const':
            return o if o.args[0] else self
        if self.op == 'const':
            return self if self.args[0] else o
        return SymBool('or', self, o)

    __rand__ = __and__
    __ror__ = __or__
    # numpy logical ufuncs on object arrays
    def logical_not(self):
        return ~self

    def __repr__(self):
        return f"SymBool({self.describe()})"


def all_of(bs):
    out = SymBool('const', True)
    for b in bs:
        out = out & b
    return out


def any_of(bs):
    out = SymBool('const', False)
    for b in bs:
        out = out | b
    return out


# ------------------------------------------------------------------------------------------------
# the field element
# ------------------------------------------------------------------------------------------------
def _const(x):
    if isinstance(x, (bool, np.bool_)):
        return QQ(int(x))
    if isinstance(x, (int, np.integer)):
        return QQ(int(x))
    if isinstance(x, (float, np.floating)):
        f = Fraction(float(x))
        return QQ(f.numerator, f.denominator)
    if isinstance(x, Fraction):
        return QQ(x.numerator, x.denominator)
    return None


def reduce_(v):
    """reduce a field element modulo the atom relations (a^2 -> radicand, minimal polynomials)"""
    cx = Ctx.cur
    if not cx.atoms:
        return v
    n, d = v.numer, v.denom
    K = cx.K
    # process atoms from the most recently created (highest) down
    for slot in sorted(cx.atoms, key=lambda s: -cx.atoms[s]['order']):
        a = cx.atoms[slot]
        idx = cx.index[slot]
        if a['kind'] == 'sqrt':
            dn = n.degree(idx) if n else 0
            dd = d.degree(idx)
            if dn < 2 and dd < 2:
                continue
            r = a['radicand'].v
            g = K(cx.R.gens[idx])
            parts = []
            for p in (n, d):
                if p.degree(idx) < 2:
                    parts.append(K(p))
                    continue
                coeffs = {}
                for mon, c in p.terms():
                    k = mon[idx]
                    m2 = mon[:idx] + (0,) + mon[idx + 1:]
                    coeffs[k] = coeffs.get(k, cx.R.zero) + cx.R.term_new(m2, c)
                acc = K(0)
                rp = {0: K(1)}
                for k, ck in sorted(coeffs.items()):
                    h = k // 2
                    if h not in rp:
                        rp[h] = r ** h
                    acc = acc + K(ck) * rp[h] * (g if k % 2 else K(1))
                parts.append(acc)
            v = parts[0] / parts[1]
            n, d = v.numer, v.denom
        elif a['kind'] == 'root':
            mp = a['minpoly']
            deg = mp.degree(idx)
            if (n.degree(idx) if n else 0) < deg and d.degree(idx) < deg:
                continue
            n2 = n.rem([mp])
            d2 = d.rem([mp])
            if d2 == 0:
                raise Inconclusive("denominator vanishes modulo a minimal polynomial")
            v = K(n2) / K(d2)
            n, d = v.numer, v.denom
    return v


class F:
    """element of Frac(Q[inputs, atoms]) reduced modulo the atom relations"""
    __slots__ = ('v',)
    ndim = 0
    shape = ()
    size = 1

    def __init__(self, v):
        self.v = v

    @staticmethod
    def lift(o):
        if isinstance(o, F):
            return o
        c = _const(o)
        if c is None:
            return None
        return F(Ctx.cur.K(c))

    @staticmethod
    def const(c):
        return F(Ctx.cur.K(_const(c)))

    def is_const(self):
        return self.v.numer.is_ground and self.v.denom.is_ground

    def const_value(self):
        c = self.v.numer.LC / self.v.denom.LC if self.v.numer else QQ(0)
        return Fraction(int(c.numerator), int(c.denominator))

    def _b(self, o, op, rev=False):
        if isinstance(o, np.ndarray):
            return NotImplemented
        if isinstance(o, (complex, np.complexfloating)) or isinstance(o, FC):
            me = FC(self, F.const(0))
            o = FC.lift(o)
            return FC._b(o, me, op) if rev else FC._b(me, o, op)
        b = F.lift(o)
        if b is None:
            return NotImplemented
        x, y = (b.v, self.v) if rev else (self.v, b.v)
        if op == '+':
            r = x + y
        elif op == '-':
            r = x - y
        elif op == '*':
            r = x * y
        else:
            if y == 0:
                # the real code divides by exactly zero on this path (inf / NaN): report it as a failed definedness goal (confirmed or
                # not by the float replay), then stop following the path
                hh = Ctx.cur.meta.get('h')
                if hh is not None:
                    hh.fail(f"finite:nonzero@{_where()}", "division by a literal zero on a feasible path")
                raise Inconclusive("division by literal zero")
            Ctx.cur.oblig.append(('nonzero', F(y), _where()))
            r = x / y
        return F(reduce_(r))

    def __add__(s, o): return s._b(o, '+')
    def __radd__(s, o): return s._b(o, '+', True)
    def __sub__(s, o): return s._b(o, '-')
    def __rsub__(s, o): return s._b(o, '-', True)
    def __mul__(s, o): return s._b(o, '*')
    def __rmul__(s, o): return s._b(o, '*', True)
    def __truediv__(s, o): return s._b(o, '/')
    def __rtruediv__(s, o): return s._b(o, '/', True)
    def __neg__(s): return F(-s.v)
    def __pos__(s): return s

    def __pow__(s, k):
        if isinstance(k, F) and k.is_const():
            k = k.const_value()
        if isinstance(k, (float, np.floating)) and float(k) == int(k):
            k = int(k)
        if isinstance(k, Fraction) and k.denominator == 1:
            k = int(k)
        if isinstance(k, (int, np.integer)):
            k = int(k)
            if k < 0:
                return 1 / (s ** (-k))
            r = F.const(1)
            base = s
            while k:
                if k & 1:
                    r = r * base
                k >>= 1
                if k:
                    base = base * base
            return r
        if isinstance(k, (float, Fraction)) and Fraction(k) == Fraction(1, 2):
            return s.sqrt()
        raise Inconclusive(f"power with exponent {k!r}")

    def __rpow__(s, b):
        raise Inconclusive("symbolic exponent")

    def _cmp(s, o, rel):
        if isinstance(o, np.ndarray):
            return NotImplemented
        if isinstance(o, (complex, np.complexfloating, FC)):
            return FC(s, F.const(0))._cmp(o, rel)
        b = F.lift(o)
        if b is None:
            return NotImplemented
        diff = F(reduce_(s.v - b.v))
        if diff.v == 0:
            return {'<': False, '<=': True, '>': False, '>=': True, '==': True, '!=': False}[rel]
        if diff.is_const():
            c = diff.const_value()
            return {'<': c < 0, '<=': c <= 0, '>': c > 0, '>=': c >= 0, '==': c == 0, '!=': c != 0}[rel]
        sb = SymBool('cmp', diff, rel)
        # inside the library under test a scalar comparison stands where NumPy would produce np.bool_ (usable as an index / mask):
        # decide it at once (fork); harness code keeps the lazy symbolic boolean to build goals
        fr = sys._getframe(2)
        if 'geometry_tools' in fr.f_code.co_filename and 'site-packages' not in fr.f_code.co_filename:
            return np.bool_(bool(sb))
        return sb

    def __lt__(s, o): return s._cmp(o, '<')
    def __le__(s, o): return s._cmp(o, '<=')
    def __gt__(s, o): return s._cmp(o, '>')
    def __ge__(s, o): return s._cmp(o, '>=')

    def __eq__(s, o):
        if o is None:
            return False
        return s._cmp(o, '==')

    def __ne__(s, o):
        if o is None:
            return True
        return s._cmp(o, '!=')

    __hash__ = None

    def __bool__(s):
        return bool(s != 0)

    def __abs__(s):
        from . import floats
        if floats.zero_only_site():
            return floats.LazyAbs(s)       # the caller only tests |x| == 0: no need to fork on the sign
        return s if bool(s >= 0) else -s

    def sign(s):
        if bool(s > 0):
            return F.const(1)
        if bool(s < 0):
            return F.const(-1)
        return F.const(0)

    def sqrt(s):
        cx = Ctx.cur
        if s.v == 0:
            return s
        if s.is_const():
            c = s.const_value()
            if c < 0:
                raise Inconclusive("sqrt of a negative constant")
            rn, rd = _isqrt(c.numerator), _isqrt(c.denominator)
            if rn is not None and rd is not None:
                return F.const(Fraction(rn, rd))
        # perfect squares: sqrt(p^2/q^2) = |p/q|
        ps = _perfect_square(s.v)
        if ps is not None:
            cx.log.append('sqrt-of-perfect-square')
            return abs(F(ps))
        key = ('sqrt', s.v)
        if key not in cx.atomkey and cx.atoms:
            # sqrt(q^2 * r_a * r_b) = |q| * a * b for existing square-root atoms a, b (keeps the tower small)
            sq_atoms = [(slot, a) for slot, a in cx.atoms.items() if a['kind'] == 'sqrt']
            if len(sq_atoms) <= 8:
                for k in (1, 2):
                    for sub in itertools.combinations(sq_atoms, k):
                        t = s.v
                        for slot, a in sub:
                            t = t / a['radicand'].v
                        if any(t.numer.degree(cx.index[sl]) > 0 or t.denom.degree(cx.index[sl]) > 0 for sl, _ in sq_atoms):
                            continue
                        ps = _perfect_square(t)
                        if ps is not None:
                            cx.log.append('sqrt-by-known-radicands')
                            r = abs(F(ps))
                            for slot, a in sub:
                                r = r * F(cx.K(cx.gens[slot]))
                            return r
        if key not in cx.atomkey:
            slot = cx.new_atom('sqrt', radicand=s)
            cx.atomkey[key] = slot
            za = cx.z3v[slot]
            cx.side += [za >= 0, za * za * cx.p2z(s.v.denom) == cx.p2z(s.v.numer)]
            cx.oblig.append(('nonneg', s, _where()))
        return F(cx.K(cx.gens[cx.atomkey[key]]))

    def conjugate(s): return s
    conj = conjugate
    real = property(lambda s: s)
    imag = property(lambda s: F.const(0))

    # transcendental hooks are installed by symnp.transc
    def __float__(s):
        from . import floats
        return floats.concretise(s)

    def __int__(s):
        if s.is_const() and s.const_value().denominator == 1:
            return int(s.const_value())
        raise Inconclusive("int() of a symbolic value")

    def __index__(s):
        raise TypeError("symbolic value used as an index")

    def pretty(s):
        cx = Ctx.cur
        txt = str(s.v)
        if cx is not None:
            for slot, name in sorted(cx.alias_of.items(), key=lambda kv: -len(kv[0])):
                txt = txt.replace(slot, name)
        return txt if len(txt) < 400 else txt[:400] + "..."

    def __repr__(s):
        return f"F({s.pretty()})"

    # numpy-scalar protocol
    def _as0d(self):
        a = np.empty((), dtype=object)
        a[()] = self
        return a

    def __getitem__(self, idx): return self._as0d()[idx]
    T = property(lambda self: self)
    def astype(self, dt, **kw): return self._as0d().astype(dt)[()]
    def item(self): return self
    def copy(self): return self
    def squeeze(self, *a, **k): return self
    def reshape(self, *shape): return self._as0d().reshape(*shape)
    def swapaxes(self, *a): return self
    def flatten(self): return self._as0d().flatten()
    def sum(self, *a, **k): return self
    def any(self, *a, **k): return bool(self != 0)
    def all(self, *a, **k): return bool(self != 0)


def _isqrt(n):
    import math
    if n < 0:
        return None
    r = math.isqrt(n)
    return r if r * r == n else None


def _perfect_square(v):
    """if v = (p/q)^2 for polynomials p,q return the field element p/q, else None"""
    cx = Ctx.cur
    outs = []
    for p in (v.numer, v.denom):
        if p.is_ground:
            c = p.LC
            c = Fraction(int(c.numerator), int(c.denominator))
            if c < 0:
                return None
            rn, rd = _isqrt(c.numerator), _isqrt(c.denominator)
            if rn is None or rd is None:
                return None
            outs.append(cx.K(QQ(rn, rd)))
            continue
        if len(p) > 80:
            return None
        try:
            coeff, facs = _sqf_list_compressed(cx, p)
        except Exception:
            return None
        c = Fraction(int(coeff.numerator), int(coeff.denominator))
        if c < 0:
            return None
        rn, rd = _isqrt(c.numerator), _isqrt(c.denominator)
        if rn is None or rd is None or any(m % 2 for _, m in facs):
            return None
        r = cx.K(QQ(rn, rd))
        for fac, m in facs:
            r = r * cx.K(fac) ** (m // 2)
        outs.append(r)
    return outs[0] / outs[1]


_SMALL_RINGS = {}


def _sqf_list_compressed(cx, p):
    """square-free factorisation in the sub-ring of the generators that actually occur (sympy converts to a
    dense recursive representation, which is hopeless with dozens of unused generators)"""
    used = sorted({i for mon in p for i, e in enumerate(mon) if e})
    key = tuple(used)
    if key not in _SMALL_RINGS:
        _SMALL_RINGS[key] = ring([f"g{i}" for i in used], QQ)[0] if used else None
    S = _SMALL_RINGS[key]
    if S is None:
        return p.LC, []
    q = S.zero
    for mon, c in p.terms():
        q = q + S.term_new(tuple(mon[i] for i in used), c)
    coeff, facs = q.sqf_list()
    n = len(cx.R.gens)
    out = []
    for fac, m in facs:
        big = cx.R.zero
        for mon, c in fac.terms():
            full = [0] * n
            for j, i in enumerate(used):
                full[i] = mon[j]
            big = big + cx.R.term_new(tuple(full), c)
        out.append((big, m))
    return coeff, out


def _where():
    """innermost frame inside the library under test (file:line function)"""
    f = sys._getframe(2)
    while f is not None:
        fn = f.f_code.co_filename
        if 'geometry_tools' in fn:
            return f"{fn.split('geometry_tools/')[-1]}:{f.f_lineno} {f.f_code.co_name}"
        f = f.f_back
    return "harness"


# ------------------------------------------------------------------------------------------------
# complex numbers
# ------------------------------------------------------------------------------------------------
class FC:
    """complex number re + i*im with re, im in F"""
    __slots__ = ('re', 'im')
    ndim = 0
    shape = ()
    size = 1

    def __init__(self, re, im):
        self.re = F.lift(re)
        self.im = F.lift(im)

    @staticmethod
    def lift(o):
        if isinstance(o, FC):
            return o
        if isinstance(o, F):
            return FC(o, F.const(0))
        if isinstance(o, (complex, np.complexfloating)):
            return FC(F.const(float(o.real)), F.const(float(o.imag)))
        c = _const(o)
        if c is None:
            return None
        return FC(F(Ctx.cur.K(c)), F.const(0))

    @staticmethod
    def _b(x, y, op):
        if op == '+':
            return FC(x.re + y.re, x.im + y.im)
        if op == '-':
            return FC(x.re - y.re, x.im - y.im)
        if op == '*':
            return FC(x.re * y.re - x.im * y.im, x.re * y.im + x.im * y.re)
        den = y.re * y.re + y.im * y.im
        return FC((x.re * y.re + x.im * y.im) / den, (x.im * y.re - x.re * y.im) / den)

    def _bb(self, o, op, rev=False):
        if isinstance(o, np.ndarray):
            return NotImplemented
        b = FC.lift(o)
        if b is None:
            return NotImplemented
        return FC._b(b, self, op) if rev else FC._b(self, b, op)

    def __add__(s, o): return s._bb(o, '+')
    def __radd__(s, o): return s._bb(o, '+', True)
    def __sub__(s, o): return s._bb(o, '-')
    def __rsub__(s, o): return s._bb(o, '-', True)
    def __mul__(s, o): return s._bb(o, '*')
    def __rmul__(s, o): return s._bb(o, '*', True)
    def __truediv__(s, o): return s._bb(o, '/')
    def __rtruediv__(s, o): return s._bb(o, '/', True)
    def __neg__(s): return FC(-s.re, -s.im)
    def __pos__(s): return s

    def __pow__(s, k):
        if isinstance(k, (int, np.integer)):
            k = int(k)
            if k < 0:
                return 1 / (s ** (-k))
            r = FC(F.const(1), F.const(0))
            for _ in range(k):
                r = r * s
            return r
        raise Inconclusive("complex power")

    def _cmp(s, o, rel):
        if isinstance(o, np.ndarray):
            return NotImplemented
        b = FC.lift(o)
        if b is None:
            return NotImplemented
        if rel == '==':
            return SymBool.lift(s.re == b.re) & SymBool.lift(s.im == b.im)
        if rel == '!=':
            return SymBool.lift(s.re != b.re) | SymBool.lift(s.im != b.im)
        # numpy orders complex numbers lexicographically (real part first, then imaginary part)
        lt = SymBool.lift(s.re < b.re) | (SymBool.lift(s.re == b.re) & SymBool.lift(s.im < b.im))
        eq = SymBool.lift(s.re == b.re) & SymBool.lift(s.im == b.im)
        res = {'<': lt, '<=': lt | eq, '>': ~(lt | eq), '>=': ~lt}[rel]
        fr = sys._getframe(2)
        if 'geometry_tools' in fr.f_code.co_filename and 'site-packages' not in fr.f_code.co_filename:
            return np.bool_(bool(res))
        return res

    def __eq__(s, o):
        if o is None:
            return False
        return s._cmp(o, '==')

    def __ne__(s, o):
        if o is None:
            return True
        return s._cmp(o, '!=')

    def __lt__(s, o): return s._cmp(o, '<')
    def __le__(s, o): return s._cmp(o, '<=')
    def __gt__(s, o): return s._cmp(o, '>')
    def __ge__(s, o): return s._cmp(o, '>=')
    __hash__ = None

    def __bool__(s):
        return bool(s != 0)

    def __abs__(s):
        from . import floats
        if floats.zero_only_site():
            return floats.LazyAbs(s)
        return (s.re * s.re + s.im * s.im).sqrt()

    def conjugate(s): return FC(s.re, -s.im)
    conj = conjugate
    real = property(lambda s: s.re)
    imag = property(lambda s: s.im)

    def __float__(s):
        # numpy's complex -> float cast keeps the real part (ComplexWarning)
        return float(s.re)

    def sqrt(s):
        raise Inconclusive("square root of a symbolic complex number")

    def pretty(s):
        return f"({s.re.pretty()}) + i({s.im.pretty()})"

    def __repr__(s):
        return f"FC({s.pretty()})"

    _as0d = F._as0d
    def __getitem__(self, idx): return self._as0d()[idx]
    T = property(lambda self: self)
    def astype(self, dt, **kw): return self._as0d().astype(dt)[()]
    def item(self): return self
    def copy(self): return self
    def squeeze(self, *a, **k): return self


# ------------------------------------------------------------------------------------------------
# path exploration
# ------------------------------------------------------------------------------------------------
class PathResult:
    def __init__(self, cx, status, out=None, reason=None, exc=None):
        self.cx = cx
        self.status = status          # 'done' | 'inconclusive' | 'exception'
        self.out = out
        self.reason = reason
        self.exc = exc


def explore(fn, max_paths=256, on_path=None, **ctxkw):
    """run fn(cx) under every feasible decision sequence (DFS by replay).  ``on_path`` is called with each
    PathResult while its context is still current (so goals can be discharged)."""
    results = []
    pending = [[]]
    n = 0
    truncated = False
    while pending:
        if n >= max_paths:
            truncated = True
            break
        pre = pending.pop()
        cx = Ctx(prefix=pre, pending=pending, **ctxkw)
        Ctx.cur = cx
        n += 1
        try:
            try:
                out = fn(cx)
                res = PathResult(cx, 'done', out)
            except PathAbort:
                res = None
            except Inconclusive as e:
                res = PathResult(cx, 'inconclusive', reason=e.reason)
            except Exception as e:
                if _walk_cause(e, PathAbort):
                    res = None
                else:
                    inc = _walk_cause(e, Inconclusive)
                    if inc is not None:
                        res = PathResult(cx, 'inconclusive', reason=inc.reason)
                    else:
                        res = PathResult(cx, 'exception', exc=e)
            if res is not None:
                if on_path is not None:
                    on_path(res)
                results.append(res)
        finally:
            Ctx.cur = None
    return results, truncated
