"""Harness API: one harness function is executed (a) symbolically on every feasible path and (b) concretely
(float64, unpatched NumPy / LAPACK) at solver-produced assignments -- for translator validation of every path
and for replay of every counterexample.

    def harness(h, n=2):
        x = h.arr('x', (n,))
        h.assume(h.dot(x, x) < 1)
        p = hyperbolic.Point(x, model='klein')
        h.eq('roundtrip', hyperbolic.Point(p.coords('poincare'), model='poincare').coords('klein'), x)
"""
import fractions
import itertools
import math
import sys
import time
import traceback
import warnings

import numpy as np
import z3
import mpmath

from . import core, npmodels, floats
from .core import Ctx, F, FC, SymBool, Inconclusive, PathAbort

Fraction = fractions.Fraction
RTOL = 1e-6


class AssumptionFailed(Exception):
    pass


def _flat(x):
    if isinstance(x, np.ndarray):
        return list(x.flat), x.shape
    if isinstance(x, (list, tuple)):
        a = np.array(x, dtype=object)
        return list(a.flat), a.shape
    return [x], ()


# =================================================================================================
# symbolic mode
# =================================================================================================
class SymH:
    mode = 'sym'

    def __init__(self, cx, opts):
        self.cx = cx
        self.opts = opts
        self.goals = []       # dicts
        self.observed = []    # (name, flat values)
        self.inputs = []      # names in creation order (real vars)
        self.notes = []
        self.undo = []

    # ---- inputs
    def var(self, name):
        self.inputs.append(name)
        return self.cx.var(name)

    def arr(self, name, shape):
        a = np.empty(shape, dtype=object)
        for idx in np.ndindex(*shape):
            a[idx] = self.var(name + "".join(f"_{i}" for i in idx))
        return a

    def cvar(self, name):
        return FC(self.var(name + "_re"), self.var(name + "_im"))

    def carr(self, name, shape):
        a = np.empty(shape, dtype=object)
        for idx in np.ndindex(*shape):
            a[idx] = self.cvar(name + "".join(f"_{i}" for i in idx))
        return a

    def const(self, c):
        return F.const(c)

    def fresh(self, name):
        """fresh unconstrained real used by nondeterministic stubs"""
        return self.var(name)

    # ---- assumptions
    def assume(self, cond, tag='assume'):
        for c in _flat(cond)[0]:
            self.cx.assume(c, tag)

    # ---- goals
    def eq(self, name, a, b, validate=True):
        fa, sa = _flat(a)
        fb, sb = _flat(b)
        if sa != sb:
            if len(fb) == 1:
                fb = fb * len(fa)
            elif len(fa) == 1:
                fa = fa * len(fb)
            else:
                self.goals.append(dict(name=name, kind='fail', why=f"shape mismatch {sa} vs {sb}"))
                return
        self.goals.append(dict(name=name, kind='eq', a=fa, b=fb, validate=validate))

    def proj_eq(self, name, a, b, validate=False, nonzero=True):
        """rows of a and b (last axis) are equal up to a non-zero scalar factor each"""
        a = np.asarray(a, dtype=object)
        b = np.asarray(b, dtype=object)
        if a.shape != b.shape:
            self.goals.append(dict(name=name, kind='fail', why=f"shape mismatch {a.shape} vs {b.shape}"))
            return
        n = a.shape[-1]
        la, lb = [], []
        nz = []
        for idx in np.ndindex(*a.shape[:-1]):
            ra, rb = a[idx], b[idx]
            for i, j in itertools.combinations(range(n), 2):
                la.append(ra[i] * rb[j])
                lb.append(ra[j] * rb[i])
            nz.append(core.any_of([SymBool.lift(_ne0(x)) for x in ra]))
            nz.append(core.any_of([SymBool.lift(_ne0(x)) for x in rb]))
        self.goals.append(dict(name=name, kind='eq', a=la, b=lb, validate=False, proj=(a, b)))
        if nonzero:
            self.goals.append(dict(name=name + ":nonzero", kind='holds', cond=core.all_of(nz)))

    def holds(self, name, cond):
        conds = [SymBool.lift(c) if not isinstance(c, SymBool) else c for c in _flat(cond)[0]]
        if any(c is None for c in conds):
            raise TypeError(f"holds({name}): not a boolean")
        self.goals.append(dict(name=name, kind='holds', cond=core.all_of(conds)))

    def fail(self, name, why):
        self.goals.append(dict(name=name, kind='fail', why=why))

    def ok(self, name):
        """a goal that holds on this path by construction (e.g. the expected exception was raised)"""
        self.goals.append(dict(name=name, kind='ok'))

    def raises(self, name, exc_types, fn):
        try:
            fn()
        except exc_types:
            self.ok(name)
            return
        self.fail(name, f"expected {exc_types} but the call returned")

    def defined(self, name, since=0):
        """all definedness obligations recorded so far (division by non-zero, sqrt/arccosh arguments in range)"""
        obs = self.cx.oblig[since:]
        conds = []
        seen = set()
        for kind, val, where in obs:
            key = (kind, str(val.v))
            if key in seen:
                continue
            seen.add(key)
            c = {'nonzero': lambda v: v != 0, 'nonneg': lambda v: v >= 0, 'ge1': lambda v: v >= 1,
                 'in11': lambda v: SymBool.lift(v >= -1) & SymBool.lift(v <= 1)}[kind](val)
            c = SymBool.lift(c)
            if c.op == 'const' and c.args[0]:
                continue
            self.goals.append(dict(name=f"{name}:{kind}@{where}", kind='holds', cond=c))
        if not conds and not obs:
            self.ok(name + ":no-partial-operations")

    def mark(self):
        return len(self.cx.oblig)

    def observe(self, name, value):
        self.observed.append((name, _flat(value)[0]))

    def note(self, txt):
        self.notes.append(txt)

    def prove_lemmas(self):
        """do not assume the engine's recorded lemmas on this path (the harness proves them as definedness goals)"""
        self.cx.meta['prove_lemmas'] = True

    def stub(self, which, **opts):
        from . import stubs
        self.undo.append(stubs.install(self, which, **opts))

    def expo(self, d):
        """exp of a distance-like value (LogReal -> field element; a plain number 0 -> 1)"""
        if hasattr(d, 'expo'):
            return d.expo()
        if isinstance(d, np.ndarray):
            out = np.empty(d.shape, dtype=object)
            for idx in np.ndindex(*d.shape):
                out[idx] = self.expo(d[idx])
            return out if out.shape else out[()]
        if isinstance(d, (int, float, np.integer, np.floating)):
            if d == 0:
                return F.const(1)
            import math
            if math.isnan(d):
                raise Inconclusive("distance evaluated to a NaN constant")
            f = Fraction(math.exp(float(d)))
            return F.const(f)
        raise Inconclusive(f"exp of {type(d).__name__}")

    # helpers usable in both modes
    @staticmethod
    def dot(a, b):
        return sum((x * y for x, y in zip(a, b)), 0)

    def is_sym(self):
        return True


def _ne0(x):
    r = (x != 0)
    return r


# =================================================================================================
# concrete mode
# =================================================================================================
class ConcH:
    mode = 'conc'

    def __init__(self, env, opts):
        self.env = env
        self.opts = opts
        self.goals = []
        self.observed = []
        self.notes = []
        self.missing = []
        self.undo = []

    def var(self, name):
        if name not in self.env:
            self.missing.append(name)
            return 0.37
        return float(self.env[name])

    def arr(self, name, shape):
        a = np.empty(shape, dtype=float)
        for idx in np.ndindex(*shape):
            a[idx] = self.var(name + "".join(f"_{i}" for i in idx))
        return a

    def cvar(self, name):
        return complex(self.var(name + "_re"), self.var(name + "_im"))

    def carr(self, name, shape):
        a = np.empty(shape, dtype=complex)
        for idx in np.ndindex(*shape):
            a[idx] = self.cvar(name + "".join(f"_{i}" for i in idx))
        return a

    def const(self, c):
        return float(c)

    fresh = var

    def assume(self, cond, tag='assume'):
        if not np.all(cond):
            raise AssumptionFailed(tag)

    def eq(self, name, a, b, validate=True):
        a_ = np.asarray(a)
        b_ = np.asarray(b)
        try:
            a_ = a_.astype(complex)
            b_ = b_.astype(complex)
            a_, b_ = np.broadcast_arrays(a_, b_)
            scale = max(1.0, float(np.max(np.abs(b_))) if b_.size else 1.0, float(np.max(np.abs(a_))) if a_.size else 1.0)
            ok = bool(np.all(np.abs(a_ - b_) <= RTOL * scale)) and not (np.isnan(a_).any() or np.isnan(b_).any())
        except ValueError:
            ok = False
        self.goals.append(dict(name=name, kind='eq', ok=ok, a=a_.ravel().tolist(), b=b_.ravel().tolist()))

    def proj_eq(self, name, a, b, validate=False, nonzero=True):
        a = np.asarray(a).astype(complex)
        b = np.asarray(b).astype(complex)
        ok = a.shape == b.shape
        if ok:
            n = a.shape[-1]
            for idx in np.ndindex(*a.shape[:-1]):
                ra, rb = a[idx], b[idx]
                na, nb = np.linalg.norm(ra), np.linalg.norm(rb)
                if not (na > 0 and nb > 0) or np.isnan(na) or np.isnan(nb):
                    ok = False
                    break
                ra, rb = ra / na, rb / nb
                cross = max(abs(ra[i] * rb[j] - ra[j] * rb[i]) for i, j in itertools.combinations(range(n), 2)) if n > 1 else 0.0
                if cross > RTOL:
                    ok = False
                    break
        self.goals.append(dict(name=name, kind='eq', ok=ok, a=a.ravel().tolist(), b=b.ravel().tolist()))
        if nonzero:
            self.goals.append(dict(name=name + ":nonzero", kind='holds', ok=ok or bool(a.shape == b.shape and np.all(np.linalg.norm(b, axis=-1) > 0) and np.all(np.linalg.norm(a, axis=-1) > 0))))

    def holds(self, name, cond):
        self.goals.append(dict(name=name, kind='holds', ok=bool(np.all(cond))))

    def fail(self, name, why):
        self.goals.append(dict(name=name, kind='fail', ok=False, why=why))

    def ok(self, name):
        self.goals.append(dict(name=name, kind='ok', ok=True))

    def raises(self, name, exc_types, fn):
        try:
            fn()
        except exc_types:
            self.ok(name)
            return
        self.fail(name, f"expected {exc_types} but the call returned")

    def defined(self, name, since=0):
        pass

    def mark(self):
        return 0

    def observe(self, name, value):
        self.observed.append((name, list(np.asarray(value).astype(complex).ravel())))

    def note(self, txt):
        self.notes.append(txt)

    dot = staticmethod(SymH.dot)

    def prove_lemmas(self):
        pass

    def expo(self, d):
        return np.exp(d)

    def stub(self, which, **opts):
        from . import stubs
        self.undo.append(stubs.install(self, which, **opts))

    def is_sym(self):
        return False


def run_concrete(fn, params, env, opts=None, with_stubs=False):
    """run the harness on the real library with float inputs. returns dict(status, goals, observed, exc).
    with_stubs=True: LAPACK stubs return the witness's concrete choice (translator validation);
    with_stubs=False: the real LAPACK is used (counterexample replay)."""
    from . import stubs
    h = ConcH(env, opts or {})
    saved = dict(stubs.CUR)
    stubs.reset()
    stubs.CUR['concrete_stub'] = with_stubs
    try:
        try:
            with np.errstate(all='ignore'), npmodels.unpatched(), warnings.catch_warnings():
                warnings.simplefilter('ignore')
                fn(h, **params)
        finally:
            for u in h.undo:
                u()
            stubs.CUR.update(saved)
        return dict(status='done', goals=h.goals, observed=h.observed, missing=h.missing)
    except AssumptionFailed as e:
        return dict(status='assumption-failed', tag=str(e), goals=h.goals, observed=h.observed, missing=h.missing)
    except Exception as e:
        return dict(status='exception', exc=f"{type(e).__name__}: {e}", exc_type=type(e).__name__, goals=h.goals,
                    observed=h.observed, tb=traceback.format_exc(limit=6), missing=h.missing)


# =================================================================================================
# model extraction
# =================================================================================================
def model_env(cx, model):
    """input-variable assignment (exact Fractions where the model value is rational)"""
    env = {}
    exact = True
    for name, slot in cx.var_alias.items():
        v = model.eval(cx.z3v[slot], model_completion=True)
        if z3.is_rational_value(v):
            env[name] = Fraction(v.numerator_as_long(), v.denominator_as_long())
        elif z3.is_algebraic_value(v):
            a = v.approx(30)
            env[name] = Fraction(a.numerator_as_long(), a.denominator_as_long())
            exact = False
        else:
            env[name] = Fraction(0)
    return env, exact


def snap_env(env, bits=40):
    """round to dyadic rationals that are exactly representable as float64"""
    out = {}
    for k, v in env.items():
        f = float(v)
        out[k] = Fraction(f)
    return out


def pc_holds(cx, env, margin=1e-9):
    ev = cx.evaluator(env)
    worst = True
    for b in cx.pc:
        try:
            r = b.evalf(ev, margin)
        except (KeyError, ZeroDivisionError):
            return None
        if r is False:
            return False
        if r is None:
            worst = None
    return worst


def find_witness(cx, extra=None, timeout_ms=5000, tries=6):
    """a float-representable assignment satisfying the path condition with margin (or None).  Preference order:
    generic and well-conditioned (all inputs non-zero and distinct, every 'expr != 0' condition kept away from 0),
    then well-conditioned only, then anything."""
    # cheap first: rational grid points, checked exactly (40-digit evaluation of the whole path condition with margin);
    # a hit is a genuine reachability witness.  The solver is only needed for paths with equality constraints.
    if extra is None and cx.var_alias:
        import random
        rnd = random.Random(hash(tuple(cx.trace)) & 0xffffffff)
        names = list(cx.var_alias)
        grids = [[Fraction(k, 8) for k in range(-7, 8) if k], [Fraction(k, 4) for k in range(-11, 12) if k and abs(k) != 4],
                 [Fraction(k, 16) for k in range(-15, 16) if k]]
        has_eq = any(b.op == 'cmp' and b.args[1] == '==' for b in cx.pc)
        for attempt in range(0 if has_eq else 60):
            g = grids[attempt % 3]
            vals = rnd.sample(g, min(len(g), len(names))) if len(names) <= len(g) else [rnd.choice(g) for _ in names]
            env = dict(zip(names, vals))
            try:
                if pc_holds(cx, env, margin=1e-4):
                    return env, 'sat'
            except Exception:
                break
    s = cx.solver(timeout_ms)
    if extra is not None:
        s.add(extra)
    vs = [cx.z3v[slot] for slot in cx.var_alias.values()]
    nzs = [cx.p2z(b.args[0].v.numer) for b in cx.pc if b.op == 'cmp' and b.args[1] == '!=']
    generic = [v != 0 for v in vs] + [a != b for a, b in itertools.combinations(vs, 2)] + [z3.And(v != 1, v != -1) for v in vs]
    generic += [z3.And(v < 8, v > -8) for v in vs]

    def cond(m):
        return [z3.Or(nz > z3.RealVal(m), nz < -z3.RealVal(m)) for nz in nzs]
    attempts = [cond("1/4"), generic + cond("1/4"), cond("1/1024"), []]
    any_sat = False
    last_status = 'unknown'
    for extra_cs in attempts:
        s.push()
        s.add(*extra_cs)
        t = time.time()
        r = core.zcheck(s, timeout_ms)
        cx.nsolver += 1
        cx.tsolver += time.time() - t
        if r == 'sat':
            any_sat = True
            env, exact = model_env(cx, s.model())
            fenv = snap_env(env)
            if pc_holds(cx, fenv, margin=1e-7) or (not extra_cs and pc_holds(cx, fenv, margin=0)):
                # (last attempt: a float-representable point that satisfies the path condition exactly is accepted even when it sits in
                # a very thin region, e.g. 0 < |x| <= 1e-8)
                s.pop()
                return fenv, 'sat'
        elif r == 'unsat' and not extra_cs:
            s.pop()
            return None, 'unsat'
        last_status = r
        s.pop()
    if not any_sat:
        return None, last_status
    return None, 'sat-unrepresentable'


# =================================================================================================
# discharge one path
# =================================================================================================
def _diffs(cx, g):
    """list of reduced differences (F or (F,F) for complex) that are not literally zero"""
    out = []
    for x, y in zip(g['a'], g['b']):
        if isinstance(x, FC) or isinstance(y, FC) or isinstance(x, complex) or isinstance(y, complex):
            x = FC.lift(x)
            y = FC.lift(y)
            if x is None or y is None:
                raise TypeError("cannot compare")
            ds = [x.re - y.re, x.im - y.im]
        else:
            fx, fy = F.lift(x), F.lift(y)
            if fx is None or fy is None:
                if hasattr(x, 'sym_eq'):
                    out.extend(x.sym_eq(y))
                    continue
                if hasattr(y, 'sym_eq'):
                    out.extend(y.sym_eq(x))
                    continue
                raise TypeError(f"cannot compare {type(x).__name__} with {type(y).__name__}")
            ds = [fx - fy]
        for d in ds:
            if d.v != 0:
                out.append(d)
    return out


def discharge_path(res, fn, params, opts, stats):
    """called with Ctx.cur == res.cx.  Appends per-goal verdicts to stats."""
    cx = res.cx
    h = res.out if res.status == 'done' else None
    goal_to = opts.get('goal_timeout_ms', 20000)
    rec = dict(trace=list(cx.trace), status=res.status, goals=[], n_branch=len(cx.trace))
    stats['paths'] += 1
    # ---- reachability witness
    wit, wstat = find_witness(cx, timeout_ms=opts.get('witness_timeout_ms', 3000))
    rec['witness'] = {k: str(v) for k, v in wit.items()} if wit else None
    rec['witness_status'] = wstat
    if wstat == 'unsat':
        stats['vacuous_paths'] += 1
        rec['status'] = 'vacuous'
        stats['records'].append(rec)
        return
    conc = None
    if wit is not None:
        conc = run_concrete(fn, params, {k: float(v) for k, v in wit.items()}, opts, with_stubs=True)
        rec['concrete_status'] = conc['status']

    if res.status == 'inconclusive':
        stats['inconclusive'].append(dict(path=cx.trace, reason=res.reason))
        # goals registered before the engine had to give up are still assertions about this path: discharge them
        h = cx.meta.get('h')
        if h is None or not h.goals:
            stats['records'].append(rec)
            return
        rec['partial'] = True
        conc = None
    if res.status == 'exception':
        e = res.exc
        rec['exception'] = f"{type(e).__name__}: {e}"
        if wit is not None and cx.stub_calls:
            conc = run_concrete(fn, params, {k: float(v) for k, v in wit.items()}, opts, with_stubs=False)
        if conc is not None and conc['status'] == 'exception' and conc['exc_type'] == type(e).__name__:
            stats['violations'].append(dict(goal='no-unexpected-exception', kind='exception', exc=conc['exc'],
                                            env={k: float(v) for k, v in wit.items()}, trace=list(cx.trace), tb=conc.get('tb')))
        else:
            tb = "".join(traceback.format_exception(type(e), e, e.__traceback__, limit=-8))
            stats['inconclusive'].append(dict(path=cx.trace, reason=f"engine-side exception {type(e).__name__}: {e}", tb=tb,
                                              concrete=conc['status'] if conc else None))
        stats['records'].append(rec)
        return

    # ---- translator validation: symbolic values at the witness vs the real float run
    if conc is not None:
        if conc['status'] == 'done' and not conc['missing']:
            try:
                ok, detail = validate_translation(cx, h, conc, wit)
            except (Inconclusive, PathAbort, Exception) as e:
                ok, detail = None, f"validation not possible: {e}"
            if ok is True:
                stats['paths_validated'] += 1
            elif ok is False:
                stats['translation_mismatch'].append(dict(trace=list(cx.trace), detail=detail, env={k: float(v) for k, v in wit.items()}))
            else:
                stats['paths_not_validated'] += 1
        elif conc['status'] == 'exception':
            # the symbolic run completed but the real code raises on the witness: replay with the real LAPACK; an exception of
            # the real code on an input satisfying the precondition is a violation of "returns a value"
            conc2 = run_concrete(fn, params, {k: float(v) for k, v in wit.items()}, opts, with_stubs=False) if cx.stub_calls else conc
            if conc2['status'] == 'exception':
                stats['violations'].append(dict(goal='no-unexpected-exception', kind='exception', exc=conc2['exc'],
                                                env={k: float(v) for k, v in wit.items()}, trace=list(cx.trace), tb=conc2.get('tb')))
            else:
                stats['translation_mismatch'].append(dict(trace=list(cx.trace), detail="concrete run with stubs raised " + conc['exc'], tb=conc.get('tb'),
                                                          env={k: float(v) for k, v in wit.items()}))
        else:
            stats['paths_not_validated'] += 1
    else:
        stats['paths_not_validated'] += 1

    # ---- goals
    conc_goals = {}
    if conc is not None:
        for g in conc['goals']:
            conc_goals.setdefault(g['name'], g)
    for g in h.goals:
        stats['obligations'] += 1
        name = g['name']
        verdict = None
        if g['kind'] == 'ok':
            verdict = 'closed'
            stats['closed_by_construction'] += 1
        elif g['kind'] == 'fail':
            verdict = 'cex'
            cex_env = wit
        elif g['kind'] == 'eq':
            try:
                ds = _diffs(cx, g)
            except TypeError as e:
                verdict = 'inconclusive'
                stats['inconclusive'].append(dict(goal=name, reason=str(e)))
                ds = None
            if ds is not None:
                if not ds:
                    verdict = 'closed'
                    stats['closed_by_normal_form'] += 1
                else:
                    q = z3.Or(*[cx.p2z(d.v.numer) != 0 for d in ds])
                    verdict, cex_env = solve_goal(cx, q, goal_to, stats)
        elif g['kind'] == 'holds':
            c = g['cond']
            if c.op == 'const':
                if c.args[0]:
                    verdict = 'closed'
                    stats['closed_by_normal_form'] += 1
                else:
                    verdict = 'cex'
                    cex_env = wit
            else:
                verdict, cex_env = solve_goal(cx, z3.Not(c.z3()), goal_to, stats)
        if verdict == 'cex':
            confirmed = confirm_cex(cx, fn, params, opts, name, cex_env, g, stats)
            verdict = 'violation' if confirmed else 'unconfirmed-cex'
        if verdict in ('closed', 'unsat'):
            stats['discharged'] += 1
        rec['goals'].append((name, verdict))
        if len(stats['samples']) < 6 and verdict in ('closed', 'unsat') and g['kind'] in ('eq', 'holds'):
            stats['samples'].append(dict(goal=name, verdict=verdict, path_condition=[b.describe()[:160] for b in cx.pc][:6],
                                         witness={k: float(v) for k, v in (wit or {}).items()}))
    stats['records'].append(rec)


def solve_goal(cx, negated_goal, timeout_ms, stats):
    s = cx.solver(timeout_ms)
    s.add(negated_goal)
    t = time.time()
    r = core.zcheck(s, timeout_ms)
    dt = time.time() - t
    cx.nsolver += 1
    cx.tsolver += dt
    stats['goal_queries'] += 1
    stats['goal_solver_s'] += dt
    if r == 'unsat':
        stats['solver_unsat'] += 1
        return 'unsat', None
    if r == 'sat':
        env, exact = model_env(cx, s.model())
        return 'cex', (env, s, negated_goal)
    stats['inconclusive'].append(dict(reason=f"solver {r} after {dt:.1f}s", trace=list(cx.trace)))
    return 'unknown', None


def confirm_cex(cx, fn, params, opts, name, cex, g, stats):
    """replay a counterexample on the real library (unpatched numpy, float64)"""
    tried = []
    envs = []
    if isinstance(cex, tuple):
        env, s, q = cex
        envs.append(env)
        # further models
        for k in range(opts.get('cex_models', 6)):
            blk = [cx.z3v[slot] != z3.RealVal(env[nm]) for nm, slot in cx.var_alias.items()]
            if not blk:
                break
            s.add(z3.Or(*blk))
            if core.zcheck(s, 5000) != 'sat':
                break
            env, _ = model_env(cx, s.model())
            envs.append(env)
    elif cex is not None:
        envs.append(cex)
    for env in envs:
        fenv = {k: float(v) for k, v in env.items()}
        conc = run_concrete(fn, params, fenv, opts)
        tried.append(dict(env=fenv, status=conc['status']))
        if conc['status'] == 'assumption-failed':
            continue
        failing = [cg for cg in conc['goals'] if cg['name'] == name and not cg['ok']]
        if not failing and any(t in name for t in (':nonzero@', ':nonneg@', ':ge1@', ':in11@')):
            # a definedness obligation (division by zero, sqrt / arccosh / arccos out of range) shows in the float run as NaN / inf,
            # i.e. as some other goal that no longer holds
            failing = [cg for cg in conc['goals'] if not cg['ok']]
        if conc['status'] == 'exception' and not failing:
            # the real code raises where the property says it should return a value
            failing = [dict(name=name, why=conc['exc'])]
        if failing:
            v = dict(goal=name, kind=g['kind'], env=fenv, trace=list(cx.trace), detail=_short(failing[0]))
            if conc['status'] == 'exception':
                v['exc'] = conc['exc']
                v['tb'] = conc.get('tb')
            stats['violations'].append(v)
            return True
    stats['unconfirmed'].append(dict(goal=name, tried=tried[:4], trace=list(cx.trace)))
    return False


def _short(g):
    out = {}
    for k, v in g.items():
        if isinstance(v, list) and len(v) > 12:
            v = v[:12] + ['...']
        out[k] = str(v)[:600]
    return out


def validate_translation(cx, h, conc, wit):
    """compare every symbolic goal operand / observation, evaluated at the witness, with the real float run"""
    ev = cx.evaluator(wit)
    cg = {}
    for g in conc['goals']:
        cg.setdefault(g['name'], g)
    compared = 0
    for g in h.goals:
        if g['kind'] != 'eq' or not g.get('validate'):
            continue
        c = cg.get(g['name'])
        if c is None or 'a' not in c:
            return False, f"goal {g['name']} missing in the concrete run"
        for side in ('a', 'b'):
            sv = g[side]
            fv = c[side]
            if len(sv) != len(fv):
                return False, f"goal {g['name']}: operand sizes differ ({len(sv)} vs {len(fv)})"
            for x, y in zip(sv, fv):
                try:
                    xv = ev.any(x)
                except (KeyError, ZeroDivisionError):
                    return None, "cannot evaluate"
                if xv is None or isinstance(xv, (F, FC)):
                    return None, "cannot evaluate"
                try:
                    xv = complex(xv)
                except TypeError:
                    return None, "cannot evaluate"
                if math.isnan(xv.real) or (isinstance(y, complex) and math.isnan(y.real)):
                    continue
                if abs(xv - y) > 1e-6 * max(1.0, abs(y)):
                    return False, f"goal {g['name']} operand {side}: symbolic {xv} vs real code {y}"
                compared += 1
    co = dict(conc['observed'])
    for name, vals in h.observed:
        if name not in co or len(co[name]) != len(vals):
            return False, f"observation {name} missing / different size in the concrete run"
        for x, y in zip(vals, co[name]):
            try:
                xv = complex(ev.any(x))
            except (KeyError, ZeroDivisionError, TypeError):
                return None, "cannot evaluate"
            if abs(xv - y) > 1e-6 * max(1.0, abs(y)):
                return False, f"observation {name}: symbolic {xv} vs real code {y}"
            compared += 1
    return (True if compared else None), compared


# =================================================================================================
# run one harness instance
# =================================================================================================
def new_stats():
    return dict(paths=0, vacuous_paths=0, paths_validated=0, paths_not_validated=0, obligations=0, discharged=0,
                closed_by_normal_form=0, closed_by_construction=0, solver_unsat=0, goal_queries=0, goal_solver_s=0.0,
                inconclusive=[], violations=[], unconfirmed=[], translation_mismatch=[], samples=[], records=[],
                truncated=False, branch_queries=0, branch_solver_s=0.0, functions=[], stubs=[], float_sites=[], wall_s=0.0)


def run_instance(fn, params, opts=None):
    opts = dict(opts or {})
    stats = new_stats()
    t0 = time.time()
    funcs = set()
    mon = _Monitor(funcs)

    def body(cx):
        from . import stubs
        h = SymH(cx, opts)
        cx.meta['h'] = h
        stubs.reset()
        try:
            fn(h, **params)
        finally:
            for u in h.undo:
                u()
        return h

    def on_path(res):
        cx = res.cx
        stats['branch_queries'] += cx.nsolver
        stats['branch_solver_s'] += cx.tsolver
        n0, t0_ = cx.nsolver, cx.tsolver
        for s in cx.stub_calls:
            if s not in stats['stubs']:
                stats['stubs'].append(s)
        for s in cx.log:
            if s.startswith('float@') and s not in stats['float_sites']:
                stats['float_sites'].append(s)
        discharge_path(res, fn, params, opts, stats)

    ctxkw = {k: opts[k] for k in ('nspare', 'branch_timeout_ms', 'max_vars') if k in opts}
    with mon:
        with npmodels.patched():
            results, truncated = core.explore(body, max_paths=opts.get('max_paths', 256), on_path=on_path, **ctxkw)
    stats['truncated'] = truncated
    if truncated:
        stats['inconclusive'].append(dict(reason=f"path budget {opts.get('max_paths', 256)} exhausted"))
    stats['functions'] = sorted(funcs)
    stats['wall_s'] = time.time() - t0
    return stats


class _Monitor:
    """collect the functions of the library under test that were executed (sys.monitoring, PY_START)"""
    TOOL = 3

    def __init__(self, sink):
        self.sink = sink
        self.on = False

    def __enter__(self):
        try:
            mon = sys.monitoring
            mon.use_tool_id(self.TOOL, "symnp")
            sink = self.sink

            def cb(code, off):
                fn = code.co_filename
                if 'geometry_tools' in fn and 'site-packages' not in fn:
                    sink.add(fn.split('geometry_tools/')[-1] + ":" + code.co_qualname)
                return mon.DISABLE
            mon.register_callback(self.TOOL, mon.events.PY_START, cb)
            mon.set_events(self.TOOL, mon.events.PY_START)
            self.on = True
        except Exception:
            self.on = False
        return self

    def __exit__(self, *a):
        if self.on:
            mon = sys.monitoring
            mon.set_events(self.TOOL, 0)
            mon.register_callback(self.TOOL, mon.events.PY_START, None)
            mon.free_tool_id(self.TOOL)
