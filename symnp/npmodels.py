"""Models for the NumPy / LAPACK entry points that cannot act on object arrays of symbolic scalars.

Installed only while a symbolic context is active (``with patched():``); float arrays always fall through to
the original NumPy function.  See DESIGN.md section 1 (array layer, LAPACK boundary).
"""
import contextlib
import fractions
import itertools

import numpy as np
import numpy.linalg as la

from .core import Ctx, F, FC, SymBool, Inconclusive, PathAbort

_ORIG = {}
SYM = (F, FC)


def is_obj(a):
    return isinstance(a, np.ndarray) and a.dtype == object


def has_sym(a):
    return any(isinstance(x, SYM) for x in np.asarray(a, dtype=object).flat)


def _floatlike(dtype):
    if dtype is None:
        return True
    try:
        dt = np.dtype(dtype)
    except TypeError:
        return False
    return dt.kind in 'fc'


# ---------------------------------------------------------------- constructors
def _obj_filled(shape, val):
    out = np.empty(shape, dtype=object)
    out.fill(val)
    return out


def model_zeros(shape, dtype=None, **kw):
    if _floatlike(dtype):
        return _obj_filled(shape, 0)
    return _ORIG['zeros'](shape, dtype=dtype, **kw)


def model_ones(shape, dtype=None, **kw):
    if _floatlike(dtype):
        return _obj_filled(shape, 1)
    return _ORIG['ones'](shape, dtype=dtype, **kw)


def model_full(shape, fill_value, dtype=None, **kw):
    if dtype is None and isinstance(fill_value, (float, np.floating, F, FC, complex)) or (dtype is not None and _floatlike(dtype)):
        return _obj_filled(shape, fill_value)
    return _ORIG['full'](shape, fill_value, dtype=dtype, **kw)


def model_identity(n, dtype=None, **kw):
    if _floatlike(dtype):
        out = _obj_filled((n, n), 0)
        for i in range(n):
            out[i, i] = 1
        return out
    return _ORIG['identity'](n, dtype=dtype, **kw)


def model_eye(N, M=None, k=0, dtype=None, **kw):
    if dtype is None or _floatlike(dtype):
        M = N if M is None else M
        out = _obj_filled((N, M), 0)
        for i in range(N):
            if 0 <= i + k < M:
                out[i, i + k] = 1
        return out
    return _ORIG['eye'](N, M, k, dtype=dtype, **kw)


def model_zeros_like(a, dtype=None, **kw):
    a = np.asarray(a)
    if (dtype is None and a.dtype.kind in 'fc') or (dtype is not None and _floatlike(dtype)):
        return _obj_filled(a.shape, 0)
    return _ORIG['zeros_like'](a, dtype=dtype, **kw)


def model_ones_like(a, dtype=None, **kw):
    a = np.asarray(a)
    if (dtype is None and a.dtype.kind in 'fc') or (dtype is not None and _floatlike(dtype)):
        return _obj_filled(a.shape, 1)
    return _ORIG['ones_like'](a, dtype=dtype, **kw)


# ---------------------------------------------------------------- real / imag / isclose
def _elementwise(a, f):
    a = np.asarray(a)
    out = np.empty(a.shape, dtype=object)
    for idx in np.ndindex(*a.shape):
        out[idx] = f(a[idx])
    return out if out.shape else out[()]


def model_real(a):
    if isinstance(a, SYM):
        return a.real
    if is_obj(a):
        return _elementwise(a, lambda x: x.real if isinstance(x, SYM) else np.real(x)[()] if not isinstance(x, (int, fractions.Fraction)) else x)
    return _ORIG['real'](a)


def model_imag(a):
    if isinstance(a, SYM):
        return a.imag
    if is_obj(a):
        return _elementwise(a, lambda x: x.imag if isinstance(x, SYM) else (np.imag(x)[()] if not isinstance(x, (int, fractions.Fraction)) else 0))
    return _ORIG['imag'](a)


def model_isclose(a, b, rtol=1e-05, atol=1e-08, equal_nan=False):
    if not (is_obj(a) or is_obj(b) or isinstance(a, SYM) or isinstance(b, SYM)):
        return _ORIG['isclose'](a, b, rtol=rtol, atol=atol, equal_nan=equal_nan)
    a_, b_ = np.broadcast_arrays(np.asarray(a, dtype=object), np.asarray(b, dtype=object))
    out = np.empty(a_.shape, dtype=bool)
    for idx in np.ndindex(*a_.shape):
        x, y = a_[idx], b_[idx]
        out[idx] = bool(abs(x - y) <= atol + rtol * abs(y))
    return out if out.shape else np.bool_(out[()])


# ---------------------------------------------------------------- exact linear algebra
def det_sym(m):
    n = m.shape[0]
    if n == 0:
        return 1
    if n == 1:
        return m[0, 0]
    if n == 2:
        return m[0, 0] * m[1, 1] - m[0, 1] * m[1, 0]
    tot = 0
    for j in range(n):
        if isinstance(m[0, j], (int, float)) and m[0, j] == 0:
            continue
        minor = np.delete(np.delete(m, 0, axis=0), j, axis=1)
        tot = tot + ((-1) ** j) * m[0, j] * det_sym(minor)
    return tot


def _exactify(m):
    """object matrix with python numbers -> F constants (so that results are exact rationals)"""
    out = np.empty(m.shape, dtype=object)
    for idx in np.ndindex(*m.shape):
        x = m[idx]
        out[idx] = x if isinstance(x, SYM) else (FC.lift(x) if isinstance(x, (complex, np.complexfloating)) else F.lift(x))
    return out


def inv_sym(m):
    n = m.shape[0]
    if n > 5:
        raise Inconclusive("symbolic inverse beyond 5x5")
    m = _exactify(m)
    d = det_sym(m)
    if isinstance(d, SYM):
        z = (d == 0)
        if isinstance(z, (bool, np.bool_)) and z:
            raise np.linalg.LinAlgError("Singular matrix")
    out = np.empty((n, n), dtype=object)
    for i in range(n):
        for j in range(n):
            minor = np.delete(np.delete(m, j, axis=0), i, axis=1)
            out[i, j] = ((-1) ** (i + j)) * (det_sym(minor) if n > 1 else 1) / d
    return out


def model_inv(a):
    a = np.asarray(a)
    if not is_obj(a):
        return _ORIG['inv'](a)
    Ctx.cur.stub_calls.append('linalg.inv:exact-adjugate')
    out = np.empty(a.shape, dtype=object)
    for idx in np.ndindex(*a.shape[:-2]):
        out[idx] = inv_sym(a[idx])
    return out


def model_det(a):
    a = np.asarray(a)
    if not is_obj(a):
        return _ORIG['det'](a)
    Ctx.cur.stub_calls.append('linalg.det:exact-laplace')
    out = np.empty(a.shape[:-2], dtype=object)
    for idx in np.ndindex(*a.shape[:-2]):
        out[idx] = det_sym(_exactify(a[idx]))
    return out          # a 0-d object array for a single matrix, like the np.float64 NumPy returns


def model_norm(x, ord=None, axis=None, keepdims=False):
    x = np.asarray(x)
    if not is_obj(x):
        return _ORIG['norm'](x, ord=ord, axis=axis, keepdims=keepdims)
    if ord not in (None, 2):
        raise Inconclusive("linalg.norm with ord != 2")
    if axis is None:
        if x.ndim > 1 and ord is None:
            sq = np.sum(np.abs(x.ravel()) ** 2)
            return np.sqrt(sq)
        axis = -1 if x.ndim == 1 else None
        if axis is None:
            raise Inconclusive("matrix 2-norm")
    sq = np.sum(np.abs(x) ** 2, axis=axis, keepdims=keepdims)
    return np.sqrt(sq)


def _method_ufunc(name):
    """np.sqrt / np.cos / ... on object arrays call the element's method of the same name, which plain python numbers
    (exact constants sitting in a symbolic array) do not have: lift those to field constants first"""
    def f(x, *args, **kw):
        if isinstance(x, SYM) or (hasattr(x, name) and not isinstance(x, np.ndarray) and not isinstance(x, (int, float, complex, np.number))):
            return getattr(x, name)(*args)
        if is_obj(x):
            if kw.get('out') is not None or kw.get('where') is not None:
                raise Inconclusive(f"np.{name} with out=/where= on symbolic data")
            def one(e):
                if isinstance(e, (int, float, fractions.Fraction, np.integer, np.floating)) and not isinstance(e, (bool, np.bool_)):
                    e = F.lift(e)
                return getattr(e, name)(*args)
            return _elementwise(x, one)
        return _ORIG[name](x, *args, **kw)
    f.__name__ = f"model_{name}"
    return f


def model_arctan2(y, x, **kw):
    if not (is_obj(y) or is_obj(x) or isinstance(y, SYM) or isinstance(x, SYM)):
        return _ORIG['arctan2'](y, x, **kw)
    from .transc import CircAng
    ya, xa = np.broadcast_arrays(np.asarray(y, dtype=object), np.asarray(x, dtype=object))
    out = np.empty(ya.shape, dtype=object)
    for idx in np.ndindex(*ya.shape):
        out[idx] = CircAng(F.lift(xa[idx]), F.lift(ya[idx]))
    return out if out.shape else out[()]


def model_maximum(a, b, **kw):
    if not (is_obj(a) or is_obj(b) or isinstance(a, SYM) or isinstance(b, SYM)):
        return _ORIG['maximum'](a, b, **kw)
    import sys as _sys
    from . import core as _core
    fr = _sys._getframe(1)
    in_distance = fr.f_code.co_name == 'distance' and 'geometry_tools' in fr.f_code.co_filename
    aa, bb = np.broadcast_arrays(np.asarray(a, dtype=object), np.asarray(b, dtype=object))
    out = np.empty(aa.shape, dtype=object)
    for idx in np.ndindex(*aa.shape):
        x, y = aa[idx], bb[idx]
        if in_distance and isinstance(x, F) and not isinstance(y, SYM) and y == 1:
            # Point.distance clamps |<x,y>| at 1 against rounding.  Over the reals |<x,y>| >= 1 for points of the closed ball (reverse
            # Cauchy-Schwarz; proved by the solver in C01's "finite" goals for n <= 3), so the clamp is the identity: it is modelled as
            # such, the fact is recorded as a definedness obligation (checked wherever a harness asks for `defined`) and as a tagged
            # assumption of the path.  The binary64 behaviour of the clamp is the subject of the separate fp instance.
            Ctx.cur.oblig.append(('ge1', x, 'hyperbolic.py distance (clamp)'))
            c = (x >= 1)
            if isinstance(c, _core.SymBool) and not Ctx.cur.meta.get('prove_lemmas'):
                # C01's harnesses set prove_lemmas: there the fact is NOT assumed, it is the goal
                Ctx.cur.assume(c, 'lemma: |<x,y>| >= 1 (reverse Cauchy-Schwarz, proved in C01)')
            out[idx] = x
            continue
        lx, ly = (x if isinstance(x, SYM) else F.lift(x)), (y if isinstance(y, SYM) else F.lift(y))
        out[idx] = lx if bool(lx >= ly) else ly
    return out if out.shape else out[()]


def _no_model(name):
    def f(a, *args, **kw):
        if is_obj(np.asarray(a)):
            raise Inconclusive(f"no model for numpy.linalg.{name} on symbolic data")
        return _ORIG[name](a, *args, **kw)
    f.__name__ = f"model_{name}"
    return f


def eigh_concrete(a, *args, **kw):
    """eigh of an object matrix whose entries are all exact constants: computed with LAPACK in floats, snapped to small rationals
    and verified exactly (B v = lambda v, orthonormal); anything else is inconclusive"""
    a = np.asarray(a)
    vals = np.empty(a.shape, dtype=float)
    for idx in np.ndindex(*a.shape):
        x = a[idx]
        if isinstance(x, F):
            if not x.is_const():
                raise Inconclusive("no model for numpy.linalg.eigh on symbolic data")
            x = x.const_value()
        if isinstance(x, FC):
            raise Inconclusive("no model for numpy.linalg.eigh on complex symbolic data")
        vals[idx] = float(x)
    w, U = _ORIG['eigh'](vals, *args, **kw)
    Fr = fractions.Fraction

    def snap(x):
        f = Fr(float(x)).limit_denominator(64)
        if abs(float(f) - float(x)) > 1e-10:
            raise Inconclusive("eigh of a constant matrix with irrational eigen-data")
        return f
    wq = np.vectorize(snap, otypes=[object])(w)
    Uq = np.vectorize(snap, otypes=[object])(U)
    # exact verification
    Bq = np.vectorize(lambda x: Fr(float(x)).limit_denominator(10 ** 9), otypes=[object])(vals)
    n = vals.shape[-1]
    for idx in np.ndindex(*vals.shape[:-2]):
        B, Um, wm = Bq[idx], Uq[idx], wq[idx]
        D = np.zeros((n, n), dtype=object)
        for i in range(n):
            D[i, i] = wm[i]
        if not ((B @ Um == Um @ D).all() and (Um.T @ Um == np.array([[Fr(int(i == j)) for j in range(n)] for i in range(n)], dtype=object)).all()):
            raise Inconclusive("snapped eigen-decomposition does not verify exactly")
    lift = np.vectorize(lambda q: F.const(q), otypes=[object])
    return lift(wq), lift(Uq)


LINALG_OVERRIDES = {}     # name -> callable, installed by stubs (eig, eigh, svd) per harness


def _dispatch_linalg(name):
    def f(a, *args, **kw):
        h = LINALG_OVERRIDES.get(name)
        if h is not None:
            return h(a, *args, **kw)
        if name == 'eigh' and is_obj(np.asarray(a)):
            Ctx.cur.stub_calls.append('linalg.eigh:exact for constant matrices (LAPACK + rational snapping, verified exactly)')
            return eigh_concrete(a, *args, **kw)
        return _no_model(name)(a, *args, **kw)
    f.__name__ = f"model_{name}"
    return f


_NP_PATCHES = {
    'zeros': model_zeros, 'ones': model_ones, 'full': model_full, 'identity': model_identity, 'eye': model_eye,
    'zeros_like': model_zeros_like, 'ones_like': model_ones_like,
    'real': model_real, 'imag': model_imag, 'isclose': model_isclose,
    'sqrt': _method_ufunc('sqrt'), 'cos': _method_ufunc('cos'), 'sin': _method_ufunc('sin'), 'arccosh': _method_ufunc('arccosh'),
    'arcsinh': _method_ufunc('arcsinh'), 'arccos': _method_ufunc('arccos'), 'arcsin': _method_ufunc('arcsin'), 'exp': _method_ufunc('exp'),
    'sinh': _method_ufunc('sinh'), 'cosh': _method_ufunc('cosh'), 'tanh': _method_ufunc('tanh'), 'tan': _method_ufunc('tan'), 'arctan': _method_ufunc('arctan'), 'arctan2': model_arctan2, 'maximum': model_maximum,
}
_LA_PATCHES = {
    'inv': model_inv, 'det': model_det, 'norm': model_norm,
    'eig': _dispatch_linalg('eig'), 'eigh': _dispatch_linalg('eigh'), 'svd': _dispatch_linalg('svd'),
    'qr': _no_model('qr'), 'eigvals': _no_model('eigvals'), 'solve': _no_model('solve'),
}


@contextlib.contextmanager
def patched():
    """install the models on the numpy / numpy.linalg namespaces (the library looks names up at call time)"""
    saved_np = {}
    saved_la = {}
    for k, f in _NP_PATCHES.items():
        saved_np[k] = getattr(np, k)
        _ORIG.setdefault(k, saved_np[k])
        setattr(np, k, f)
    for k, f in _LA_PATCHES.items():
        saved_la[k] = getattr(la, k)
        _ORIG.setdefault(k, saved_la[k])
        setattr(la, k, f)
    try:
        yield
    finally:
        for k, f in saved_np.items():
            setattr(np, k, f)
        for k, f in saved_la.items():
            setattr(la, k, f)


@contextlib.contextmanager
def unpatched():
    """temporarily restore the real numpy functions and leave the symbolic context (for concrete replays)"""
    saved = {}
    for k in _NP_PATCHES:
        if k in _ORIG:
            saved[('np', k)] = getattr(np, k)
            setattr(np, k, _ORIG[k])
    for k in _LA_PATCHES:
        if k in _ORIG:
            saved[('la', k)] = getattr(la, k)
            setattr(la, k, _ORIG[k])
    cur = Ctx.cur
    Ctx.cur = None
    try:
        yield
    finally:
        Ctx.cur = cur
        for (w, k), f in saved.items():
            setattr(np if w == 'np' else la, k, f)
