"""run one harness instance in its own process and write its statistics as JSON.

usage: python -m symnp.worker <spec.json> <out.json>
spec = {kind, module, func, params, opts}
"""
import importlib
import json
import os
import sys
import time
import traceback


def _tuplify(params):
    out = {}
    for k, v in params.items():
        out[k] = tuple(_t(x) for x in v) if isinstance(v, list) else v
    return out


def _t(x):
    return tuple(_t(y) for y in x) if isinstance(x, list) else x


def main():
    spec = json.load(open(sys.argv[1]))
    out = sys.argv[2]
    repo = os.environ.get('VERIF_REPO', '/repo')
    sys.path.insert(0, repo)
    here = os.path.dirname(os.path.dirname(os.path.abspath(__file__)))
    sys.path.insert(1, here)
    t0 = time.time()
    try:
        import geometry_tools
        assert os.path.abspath(geometry_tools.__file__).startswith(os.path.abspath(repo)), geometry_tools.__file__
        mod = importlib.import_module(spec['module'])
        fn = getattr(mod, spec['func'])
        kind = spec.get('kind', 'symnp')
        params = _tuplify(spec.get('params', {}))
        if kind == 'symnp':
            from symnp import api, transc  # noqa: F401  (transc installs the transcendental hooks)
            stats = api.run_instance(fn, params, spec.get('opts', {}))
        else:
            stats = fn(**params, opts=spec.get('opts', {}))
        stats['ok'] = True
    except BaseException as e:
        stats = dict(ok=False, error=f"{type(e).__name__}: {e}", tb=traceback.format_exc(limit=12))
    stats['wall_s'] = time.time() - t0
    stats.pop('records', None) if os.environ.get('VERIF_KEEP_RECORDS') != '1' else None
    with open(out, 'w') as f:
        json.dump(stats, f, default=str)


if __name__ == '__main__':
    main()
