"""E1-fp: the same operator-overloading trick with IEEE-754 binary64 terms (z3 FloatingPoint, round-nearest-even), used for the
one question where 'floats as reals' would be a lie: can Point.distance(p, p) be NaN?

The real library code (Point construction from Klein coordinates, hyperboloid_coords / normalize, apply_bilinear, distance) runs on
object arrays whose elements are FPV values; evaluation order is the object-array order (left to right, no FMA).  The query asks for
an input with |a_i| <= 1/2 for which the argument handed to np.arccosh is < 1 or NaN.  sat results are replayed on real NumPy.
"""
import contextlib
import time

import numpy as np
import z3

RM = z3.RNE()
SORT = z3.Float64()


class FPAbort(BaseException):
    pass


class FPCtx:
    cur = None

    def __init__(self):
        self.assumptions = []
        self.arccosh_args = []
        self.log = []


def _lift(x):
    if isinstance(x, FPV):
        return x.t
    if isinstance(x, (bool, np.bool_)):
        return None
    if isinstance(x, (int, float, np.integer, np.floating)):
        return z3.FPVal(float(x), SORT)
    return None


class FPV:
    __slots__ = ('t',)
    ndim = 0
    shape = ()

    def __init__(self, t):
        self.t = t

    def _b(self, o, f, rev=False):
        if isinstance(o, np.ndarray):
            return NotImplemented
        b = _lift(o)
        if b is None:
            return NotImplemented
        return FPV(f(RM, b, self.t) if rev else f(RM, self.t, b))

    def __add__(s, o): return s._b(o, z3.fpAdd)
    def __radd__(s, o): return s._b(o, z3.fpAdd, True)
    def __sub__(s, o): return s._b(o, z3.fpSub)
    def __rsub__(s, o): return s._b(o, z3.fpSub, True)
    def __mul__(s, o): return s._b(o, z3.fpMul)
    def __rmul__(s, o): return s._b(o, z3.fpMul, True)
    def __truediv__(s, o): return s._b(o, z3.fpDiv)
    def __rtruediv__(s, o): return s._b(o, z3.fpDiv, True)
    def __neg__(s): return FPV(z3.fpNeg(s.t))
    def __pos__(s): return s
    def __abs__(s): return FPV(z3.fpAbs(s.t))
    def sqrt(s): return FPV(z3.fpSqrt(RM, s.t))
    def conjugate(s): return s
    real = property(lambda s: s)

    def __pow__(s, k):
        if isinstance(k, (int, np.integer)) and int(k) == 2:
            return s * s
        raise FPAbort("power")

    def arccosh(s):
        FPCtx.cur.arccosh_args.append(s.t)
        return FPV(z3.FP(f"arccosh_result{len(FPCtx.cur.arccosh_args)}", SORT))

    def __float__(s):
        # the only float() in the distance pipeline is normalize's mask abs_norms.astype('float64') != 0: for interior points the norm
        # is far from zero; record that as an assumption (checked by the solver as part of the query's side conditions)
        FPCtx.cur.assumptions.append(z3.Not(z3.fpIsZero(s.t)))
        FPCtx.cur.log.append('float() -> assumed non-zero')
        return 1.0

    def _cmp(s, o, f):
        raise FPAbort("data-dependent comparison on FP values")

    __lt__ = __le__ = __gt__ = __ge__ = lambda s, o: s._cmp(o, None)
    __hash__ = None

    def __eq__(s, o): return s._cmp(o, None)
    def __ne__(s, o): return s._cmp(o, None)

    def _as0d(self):
        a = np.empty((), dtype=object)
        a[()] = self
        return a

    def __getitem__(self, idx): return self._as0d()[idx]
    T = property(lambda self: self)
    def astype(self, dt, **kw): return self._as0d().astype(dt)[()]
    def item(self): return self
    def copy(self): return self
    def squeeze(self, *a, **k): return self


def _maximum(a, b, **kw):
    if isinstance(a, FPV) or isinstance(b, FPV) or (isinstance(a, np.ndarray) and a.dtype == object) or (isinstance(b, np.ndarray) and b.dtype == object):
        aa, bb = np.broadcast_arrays(np.asarray(a, dtype=object), np.asarray(b, dtype=object))
        out = np.empty(aa.shape, dtype=object)
        for idx in np.ndindex(*aa.shape):
            out[idx] = FPV(z3.fpMax(_lift(aa[idx]), _lift(bb[idx])))
        return out if out.shape else out[()]
    return _ORIG['maximum'](a, b, **kw)


def _clip(a, lo, hi=None, **kw):
    if isinstance(a, FPV) or (isinstance(a, np.ndarray) and a.dtype == object):
        r = a
        if lo is not None:
            r = _maximum(r, lo)
        if hi is not None:
            arr = np.asarray(r, dtype=object)
            out = np.empty(arr.shape, dtype=object)
            for idx in np.ndindex(*arr.shape):
                out[idx] = FPV(z3.fpMin(_lift(arr[idx]), _lift(hi)))
            r = out if out.shape else out[()]
        return r
    return _ORIG['clip'](a, lo, hi, **kw)


_ORIG = {}


@contextlib.contextmanager
def patched():
    from . import npmodels
    names = {'maximum': _maximum, 'clip': _clip}
    saved = {}
    for k, f in names.items():
        saved[k] = getattr(np, k)
        _ORIG.setdefault(k, saved[k])
        setattr(np, k, f)
    try:
        with npmodels.patched():
            # the method-ufunc models lift plain numbers to exact field constants, which needs a symnp context; in FP mode the
            # arrays only contain FPV values and python ints, so restore the real ufuncs for sqrt / arccosh / abs
            for k in ('sqrt', 'arccosh', 'cos', 'sin', 'exp'):
                setattr(np, k, npmodels._ORIG[k])
            yield
    finally:
        for k, f in saved.items():
            setattr(np, k, f)


def distance_self_nan(n=1, bound=0.5, opts=None):
    """kind='fp' instance: is there x in [-bound, bound]^n with Point(x).distance(Point(x)) NaN (arccosh argument < 1 or NaN)?"""
    opts = opts or {}
    t0 = time.time()
    from geometry_tools import hyperbolic
    cx = FPCtx()
    FPCtx.cur = cx
    stats = dict(paths=1, vacuous_paths=0, paths_validated=0, paths_not_validated=0, obligations=1, discharged=0, closed_by_normal_form=0,
                 closed_by_construction=0, solver_unsat=0, goal_queries=1, branch_queries=0, goal_solver_s=0.0, branch_solver_s=0.0,
                 inconclusive=[], violations=[], unconfirmed=[], translation_mismatch=[], samples=[], functions=[], stubs=[], float_sites=[])
    xs = [z3.FP(f"x{i}", SORT) for i in range(n)]
    try:
        with patched():
            def mk():
                a = np.empty((n,), dtype=object)
                for i in range(n):
                    a[i] = FPV(xs[i])
                return hyperbolic.Point(a, model="klein")
            p, q = mk(), mk()
            p.distance(q)
    except FPAbort as e:
        stats['inconclusive'].append(dict(reason=f"FP engine cannot follow the code: {e}"))
        FPCtx.cur = None
        return stats
    finally:
        FPCtx.cur = None
    if not cx.arccosh_args:
        stats['inconclusive'].append(dict(reason="np.arccosh was not reached with a symbolic argument"))
        return stats
    arg = cx.arccosh_args[-1]
    s = z3.Solver()
    to = int(opts.get('timeout_ms', 400000))
    s.set('timeout', to)
    b = z3.FPVal(bound, SORT)
    for x in xs:
        s.add(z3.Not(z3.fpIsNaN(x)), z3.fpLEQ(x, b), z3.fpGEQ(x, z3.fpNeg(b)))
    # the recorded side assumptions (normalisation masks non-zero) hold for every |x_i| <= bound: |<p,p>| >= 1 - n*bound^2 > 0;
    # they are asserted, and the query asks for an arccosh argument below 1 (a NaN argument cannot arise from finite inputs here)
    s.add(*cx.assumptions)
    s.add(z3.fpLT(arg, z3.FPVal(1.0, SORT)))
    r, model_vals = portfolio(s, xs, to / 1000.0)
    stats['goal_solver_s'] = time.time() - t0
    rec = dict(goal="d(x,x) is never NaN (binary64, RNE, object-array evaluation order)", dimension=n, bound=bound, verdict=r,
               solver_s=round(time.time() - t0, 1), assumptions=[str(a)[:80] for a in cx.assumptions])
    if r == 'unsat':
        stats['discharged'] = 1
        stats['solver_unsat'] = 1
        stats['samples'].append(rec)
    elif r == 'sat':
        vals = model_vals
        d = replay_values(vals)
        if d != d:      # NaN
            stats['violations'].append(dict(goal="d(x,x) is never NaN", kind='fp', env={f"x{i}": v for i, v in enumerate(vals)}, values=vals,
                                            detail=f"Point({vals}, model='klein').distance(itself) = {d}"))
        else:
            stats['unconfirmed'].append(dict(goal="d(x,x) is never NaN", tried=[dict(values=vals, distance=d)]))
    else:
        stats['inconclusive'].append(dict(reason=f"solver {r} after {time.time() - t0:.0f}s (binary64 query, dimension {n})"))
    stats['nontrivial'] = stats['discharged']
    stats['functions'] = ["hyperbolic.py:Point.distance", "hyperbolic.py:hyperboloid_coords", "utils/core.py:normalize", "utils/core.py:apply_bilinear",
                          "utils/core.py:matrix_product", "projective.py:projective_coords"]
    return stats


def portfolio(solver, xs, timeout_s):
    """export the query as SMT-LIB2 and race the installed solver binaries under a hard wall-clock cap (bit-blasting back ends do not
    honour soft timeouts reliably); returns (verdict, [float values of xs] or None)"""
    import os, re, struct, subprocess, tempfile
    txt = solver.to_smt2()
    txt = txt.replace("(check-sat)", "(check-sat)\n" + "".join(f"(get-value ((fp.to_ieee_bv_placeholder {x})))\n" for x in []))
    # values as IEEE bit patterns: define bit-vector aliases
    decl = "".join(f"(declare-const bv_{x} (_ BitVec 64))\n(assert (= ((_ to_fp 11 53) bv_{x}) {x}))\n" for x in xs)
    txt = txt.replace("(check-sat)", decl + "(check-sat)\n(get-value (" + " ".join(f"bv_{x}" for x in xs) + "))")
    d = tempfile.mkdtemp(prefix="fpq_")
    path = os.path.join(d, "q.smt2")
    open(path, "w").write("(set-option :produce-models true)\n" + txt)
    cmds = [["z3-new", path], ["z3", path], ["cvc5", "--produce-models", path]]
    procs = []
    for c in cmds:
        try:
            procs.append((c[0], subprocess.Popen(c, stdout=subprocess.PIPE, stderr=subprocess.STDOUT, text=True)))
        except OSError:
            pass
    t0 = time.time()
    verdict, vals = 'unknown', None
    while procs and time.time() - t0 < timeout_s:
        for name, p in list(procs):
            if p.poll() is not None:
                out = p.stdout.read()
                procs.remove((name, p))
                first = out.strip().split("\n")[0].strip() if out.strip() else ''
                if '(error' in out and first not in ('sat', 'unsat'):
                    continue
                if first == 'unsat':
                    verdict = 'unsat'
                    procs_kill(procs)
                    procs = []
                    break
                if first == 'sat':
                    hexes = re.findall(r"#x([0-9a-fA-F]{16})", out)
                    bins = re.findall(r"#b([01]{64})", out)
                    raw = [int(h, 16) for h in hexes] or [int(b, 2) for b in bins]
                    if len(raw) >= len(xs):
                        vals = [struct.unpack('>d', r.to_bytes(8, 'big'))[0] for r in raw[:len(xs)]]
                        verdict = 'sat'
                        procs_kill(procs)
                        procs = []
                        break
        time.sleep(0.2)
    procs_kill(procs)
    try:
        import shutil
        shutil.rmtree(d)
    except OSError:
        pass
    return verdict, vals


def procs_kill(procs):
    for _, p in procs:
        try:
            p.kill()
            p.wait()
        except OSError:
            pass


def _fp_to_float(v):
    import struct
    try:
        bv = z3.simplify(z3.fpToIEEEBV(v))
        return struct.unpack('>d', int(bv.as_long()).to_bytes(8, 'big'))[0]
    except Exception:
        return float(str(v).replace('*(2**', 'e').rstrip(')')) if False else float('nan')


def replay_values(vals):
    import warnings
    from geometry_tools import hyperbolic
    with warnings.catch_warnings(), np.errstate(all='ignore'):
        warnings.simplefilter('ignore')
        p = hyperbolic.Point(np.array(vals, dtype=float), model="klein")
        q = hyperbolic.Point(np.array(vals, dtype=float), model="klein")
        return float(np.asarray(p.distance(q)).flat[0])


def replay(v):
    import os, sys
    d = replay_values(v['values'])
    print("replay distance(p, p) for Klein coordinates", v['values'], "->", d)
    return 1 if d != d else 0
