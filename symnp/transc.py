"""Transcendental values that the library only ever uses through algebraic windows.

* ``LogReal``  : the real number k*ln(E), E a positive field element.  Produced by arccosh / arcsinh, consumed by
                 exp / cosh / sinh / tanh and by comparisons (ln is monotone).
* ``Ang``      : an angle  sum_i c_i*theta_i + q*pi  with integer c_i over symbolic base angles theta_i (each
                 carried as a point (cos, sin) of the unit circle) and rational q.  cos / sin are expanded with
                 the addition formulas; cos(q*pi) is an algebraic atom with its minimal polynomial.
* ``ArcCos`` / ``ArcSin`` : results of np.arccos / np.arcsin, carried by their cosine / sine.
"""
import fractions
import numpy as np
import sympy
import z3

from .core import Ctx, F, FC, SymBool, Inconclusive, reduce_, _where
from sympy.polys.domains import QQ

Fraction = fractions.Fraction


class _Scalar0d:
    ndim = 0
    shape = ()
    size = 1

    def _as0d(self):
        a = np.empty((), dtype=object)
        a[()] = self
        return a

    def __getitem__(self, idx): return self._as0d()[idx]
    T = property(lambda self: self)
    def item(self): return self
    def copy(self): return self
    def squeeze(self, *a, **k): return self
    def astype(self, dt, **kw): return self._as0d().astype(dt)[()]
    __hash__ = None


def _rat(c):
    if isinstance(c, F) and c.is_const():
        return c.const_value()
    if isinstance(c, (bool, np.bool_)):
        return None
    if isinstance(c, (int, np.integer)):
        return Fraction(int(c))
    if isinstance(c, Fraction):
        return c
    if isinstance(c, (float, np.floating)):
        return Fraction(float(c))
    return None


# ------------------------------------------------------------------------------------------------
class LogReal(_Scalar0d):
    """k * ln(E) with E > 0 (field element), k rational"""

    def __init__(self, E, k=Fraction(1), ch=None):
        self.E = F.lift(E)
        self.k = Fraction(k)
        self.ch = ch          # cosh of the value when known directly (arccosh)

    def _pow(self, k):
        if k.denominator == 1:
            return self.E ** int(k)
        if k.denominator == 2:
            return self.E.sqrt() ** int(k.numerator)
        raise Inconclusive("fractional power of exp(LogReal)")

    def expo(self):
        """e^value as a field element"""
        return self._pow(self.k)

    exp = expo

    def cosh(self):
        if self.ch is not None and abs(self.k) == 1:
            return self.ch
        e = self.expo()
        return (e + 1 / e) / 2

    def sinh(self):
        e = self.expo()
        return (e - 1 / e) / 2

    def tanh(self):
        e2 = self._pow(2 * self.k)
        return (e2 - 1) / (e2 + 1)

    def __mul__(self, c):
        r = _rat(c)
        if r is None:
            return NotImplemented
        return LogReal(self.E, self.k * r)

    __rmul__ = __mul__

    def __truediv__(self, c):
        r = _rat(c)
        if r is None or r == 0:
            return NotImplemented
        return LogReal(self.E, self.k / r)

    def __neg__(self):
        return LogReal(self.E, -self.k)

    def __pos__(self):
        return self

    def __add__(self, o):
        if isinstance(o, LogReal):
            return LogReal(self.expo() * o.expo())
        r = _rat(o)
        if r == 0:
            return self
        return NotImplemented

    __radd__ = __add__

    def __sub__(self, o):
        if isinstance(o, LogReal):
            return LogReal(self.expo() / o.expo())
        r = _rat(o)
        if r == 0:
            return self
        return NotImplemented

    def _cmp(self, o, rel):
        if isinstance(o, LogReal):
            a, b = self.expo(), o.expo()
        else:
            r = _rat(o)
            if r != 0:
                raise Inconclusive("comparison of a logarithm with a non-zero constant")
            a, b = self.expo(), F.const(1)
        return {'<': a < b, '<=': a <= b, '>': a > b, '>=': a >= b, '==': a == b, '!=': a != b}[rel]

    def __lt__(s, o): return s._cmp(o, '<')
    def __le__(s, o): return s._cmp(o, '<=')
    def __gt__(s, o): return s._cmp(o, '>')
    def __ge__(s, o): return s._cmp(o, '>=')
    def __eq__(s, o): return False if o is None else s._cmp(o, '==')
    def __ne__(s, o): return True if o is None else s._cmp(o, '!=')

    def __abs__(self):
        return self if bool(self >= 0) else -self

    def sym_eq(self, other):
        """differences that must vanish for equality (used by goal discharge)"""
        if isinstance(other, LogReal):
            return [d for d in [self.expo() - other.expo()] if d.v != 0]
        r = _rat(other)
        if r == 0:
            d = self.expo() - 1
            return [d] if d.v != 0 else []
        raise TypeError("cannot compare a logarithm with a non-zero constant")

    def evalf_with(self, ev):
        import mpmath
        return float(self.k.numerator * mpmath.log(ev.f(self.E)) / self.k.denominator)

    def __float__(self):
        raise Inconclusive("float() of a symbolic logarithm")

    def __repr__(self):
        return f"LogReal({self.k}*ln({self.E.pretty()}))"


def _arccosh(u):
    Ctx.cur.oblig.append(('ge1', u, _where()))
    s = (u * u - 1).sqrt()
    return LogReal(u + s, 1, ch=u)


def _arcsinh(u):
    s = (u * u + 1).sqrt()
    return LogReal(u + s, 1)


F.arccosh = _arccosh
F.arcsinh = _arcsinh


def _f_exp(x):
    if x.is_const() and x.const_value() == 0:
        return F.const(1)
    raise Inconclusive("exp of a symbolic real that is not a logarithm")


F.exp = _f_exp


# ------------------------------------------------------------------------------------------------
# exact cos / sin of rational multiples of pi
# ------------------------------------------------------------------------------------------------
def cos_pi_rational(q):
    """cos(q*pi) as a field element: rational, or an algebraic atom with minimal polynomial and isolating interval"""
    cx = Ctx.cur
    q = Fraction(q) % 2
    val = sympy.cos(sympy.pi * sympy.Rational(q.numerator, q.denominator))
    if val.is_rational:
        return F.const(Fraction(int(val.p), int(val.q)))
    key = ('cospi', q)
    if key in cx.atomkey:
        return F(cx.K(cx.gens[cx.atomkey[key]]))
    # express through the primitive atom c = cos(pi/d) (d = denominator) with a Chebyshev polynomial, so that
    # all multiples share one algebraic atom
    d = q.denominator
    # one common base atom cos(pi/D) per path when the harness declares it (keeps the atoms algebraically independent)
    D = cx.meta.get('pi_base')
    if D and (q * D).denominator == 1:
        q = Fraction((q * D).numerator, D)
        d = D
    base_key = ('cospi-base', d)
    if base_key not in cx.atomkey:
        x = sympy.Symbol('x')
        bval = sympy.cos(sympy.pi / d)
        mpoly = sympy.Poly(sympy.minimal_polynomial(bval, x), x)
        slot = cx.new_atom('root', value=str(bval.evalf(45)))
        g = cx.gens[slot]
        re = cx.R.zero
        for (e,), c in mpoly.terms():
            re = re + cx.R(QQ(int(c.p), int(c.q))) * g ** e
        re = re.monic()
        cx.atoms[slot]['minpoly'] = re
        lo = sympy.floor(bval.evalf(40) * 10 ** 12)
        za = cx.z3v[slot]
        cx.side += [cx.p2z(re) == 0, za > z3.RealVal(f"{int(lo)}/{10 ** 12}"), za < z3.RealVal(f"{int(lo) + 1}/{10 ** 12}")]
        cx.atomkey[base_key] = slot
    c = F(cx.K(cx.gens[cx.atomkey[base_key]]))
    # cos(k * pi/d) = T_k(c)
    k = int(q * d)
    t0, t1 = F.const(1), c
    if k == 0:
        return t0
    for _ in range(k - 1):
        t0, t1 = t1, 2 * c * t1 - t0
    return t1


def set_pi_base(D):
    """declare that all rational multiples of pi on this path are multiples of pi/D"""
    if Ctx.cur is not None:
        Ctx.cur.meta['pi_base'] = D


def sin_pi_rational(q):
    return cos_pi_rational(Fraction(1, 2) - Fraction(q))


# ------------------------------------------------------------------------------------------------
class Ang(_Scalar0d):
    """sum_i c_i*theta_i + q*pi ; base angles theta_i are registered in the context with their (cos, sin)"""

    def __init__(self, coeffs=None, q=Fraction(0)):
        self.coeffs = {k: Fraction(v) for k, v in (coeffs or {}).items() if v != 0}
        self.q = Fraction(q)

    @staticmethod
    def base(name, c, s):
        cx = Ctx.cur
        cx.meta.setdefault('angles', {})[name] = (F.lift(c), F.lift(s))
        return Ang({name: 1})

    @staticmethod
    def pi_multiple(q):
        return Ang({}, q)

    def _lin(self, o, sign):
        if isinstance(o, Ang):
            c = dict(self.coeffs)
            for k, v in o.coeffs.items():
                c[k] = c.get(k, 0) + sign * v
            return Ang(c, self.q + sign * o.q)
        r = _rat(o)
        if r == 0:
            return self
        return NotImplemented

    def __add__(self, o): return self._lin(o, 1)
    __radd__ = __add__
    def __sub__(self, o): return self._lin(o, -1)
    def __rsub__(self, o): return (-self)._lin(o, 1)
    def __neg__(self): return Ang({k: -v for k, v in self.coeffs.items()}, -self.q)
    def __pos__(self): return self

    def __mul__(self, c):
        r = _rat(c)
        if r is None:
            if isinstance(c, RadToDeg):
                return Degrees(self)
            return NotImplemented
        return Ang({k: v * r for k, v in self.coeffs.items()}, self.q * r)

    __rmul__ = __mul__

    def __truediv__(self, c):
        if isinstance(c, Ang) and not c.coeffs and not self.coeffs and c.q != 0:
            return F.const(self.q / c.q)
        r = _rat(c)
        if r is None or r == 0:
            return NotImplemented
        return Ang({k: v / r for k, v in self.coeffs.items()}, self.q / r)

    def __rtruediv__(self, c):
        # 180 / pi
        r = _rat(c)
        if r is not None and not self.coeffs and self.q != 0:
            return RadToDeg(r / self.q)
        return NotImplemented

    def cs(self):
        """(cos, sin) as field elements"""
        cx = Ctx.cur
        c, s = cos_pi_rational(self.q), sin_pi_rational(self.q)
        for name, k in sorted(self.coeffs.items()):
            if k.denominator != 1:
                raise Inconclusive(f"cos/sin of a fractional multiple ({k}) of the symbolic angle {name}")
            bc, bs = cx.meta['angles'][name]
            n = int(k)
            if n < 0:
                bs = -bs
                n = -n
            for _ in range(n):
                c, s = c * bc - s * bs, s * bc + c * bs
        return c, s

    def cos(self): return self.cs()[0]
    def sin(self): return self.cs()[1]

    def tan(self):
        c, s = self.cs()
        return s / c

    def sym_eq(self, other):
        """equality modulo 2*pi"""
        if not isinstance(other, Ang):
            r = _rat(other)
            if r != 0:
                raise TypeError("cannot compare an angle with a non-zero number")
            other = Ang()
        c1, s1 = self.cs()
        c2, s2 = other.cs()
        return [d for d in (c1 - c2, s1 - s2) if d.v != 0]

    def evalf_with(self, ev):
        import math
        tot = float(self.q) * math.pi
        for name, k in self.coeffs.items():
            bc, bs = Ctx.cur.meta['angles'][name] if Ctx.cur else ev.cx.meta['angles'][name]
            tot += float(k) * math.atan2(float(ev.f(bs)), float(ev.f(bc)))
        return tot

    def __float__(self):
        if not self.coeffs:
            import math
            return float(self.q) * math.pi
        raise Inconclusive("float() of a symbolic angle")

    def __repr__(self):
        return f"Ang({dict(self.coeffs)}, {self.q}*pi)"


class RadToDeg(_Scalar0d):
    """the constant c/pi (e.g. 180/pi)"""
    def __init__(self, c): self.c = Fraction(c)


class Degrees(_Scalar0d):
    def __init__(self, ang): self.ang = ang


def t_angle(h, name):
    """a symbolic base angle through the rational parametrisation of the circle (every angle except pi):
    cos = (1-t^2)/(1+t^2), sin = 2t/(1+t^2).  In concrete mode returns the float angle."""
    t = h.var(name + "_t")
    if h.is_sym():
        return Ang.base(name, (1 - t * t) / (1 + t * t), 2 * t / (1 + t * t))
    import math
    return 2 * math.atan(t)


class ArcCos(_Scalar0d):
    """arccos(u) in [0, pi], carried by its cosine"""
    def __init__(self, u):
        self.u = u

    def cos(self): return self.u

    def sin(self): return (1 - self.u * self.u).sqrt()

    def sym_eq(self, other):
        if isinstance(other, ArcCos):
            d = self.u - other.u
        elif isinstance(other, Ang):
            # equality with an angle known to lie in [0, pi] -- caller's responsibility
            d = self.u - other.cos()
        else:
            raise TypeError("cannot compare arccos value")
        return [d] if d.v != 0 else []

    def evalf_with(self, ev):
        import math
        return math.acos(max(-1.0, min(1.0, float(ev.f(self.u)))))


def _arccos(u):
    Ctx.cur.oblig.append(('in11', u, _where()))
    return ArcCos(u)


F.arccos = _arccos


class ArcSin(_Scalar0d):
    """arcsin(u) in [-pi/2, pi/2], carried by its sine; supports multiplication by 2 (double angle)"""
    def __init__(self, u, mult=1):
        self.u = u
        self.mult = mult

    def __mul__(self, c):
        r = _rat(c)
        if r is None or r.denominator != 1:
            return NotImplemented
        return ArcSin(self.u, self.mult * int(r))

    __rmul__ = __mul__

    def cs(self):
        s = self.u
        c = (1 - s * s).sqrt()
        cc, ss = F.const(1), F.const(0)
        for _ in range(abs(self.mult)):
            cc, ss = cc * c - ss * s, ss * c + cc * s
        return cc, (ss if self.mult >= 0 else -ss)

    def cos(self): return self.cs()[0]
    def sin(self): return self.cs()[1]

    def evalf_with(self, ev):
        import math
        return self.mult * math.asin(max(-1.0, min(1.0, float(ev.f(self.u)))))


def _arcsin(u):
    Ctx.cur.oblig.append(('in11', u, _where()))
    return ArcSin(u)


F.arcsin = _arcsin


class ArcTan(_Scalar0d):
    """arctan(w) in (-pi/2, pi/2), carried by its tangent"""
    def __init__(self, w):
        self.w = w

    def cos(self):
        return 1 / (1 + self.w * self.w).sqrt()

    def sin(self):
        return self.w / (1 + self.w * self.w).sqrt()

    def evalf_with(self, ev):
        import math
        return math.atan(float(ev.f(self.w)))


F.arctan = lambda u: ArcTan(u)


def _f_cos(x):
    if x.is_const() and x.const_value() == 0:
        return F.const(1)
    raise Inconclusive("cos of a plain symbolic real (use an Ang)")


def _f_sin(x):
    if x.is_const() and x.const_value() == 0:
        return F.const(0)
    raise Inconclusive("sin of a plain symbolic real (use an Ang)")


F.cos = _f_cos
F.sin = _f_sin


# ------------------------------------------------------------------------------------------------
# angles produced by np.arctan2 (utils.circle_angles) and the arc-ordering helpers that consume them
# ------------------------------------------------------------------------------------------------
TWO_PI = 6.283185307179586
PI_F = 3.141592653589793
RAD2DEG = 57.29577951308232


def _is_const(c, val):
    try:
        return isinstance(c, (float, np.floating)) and abs(float(c) - val) < 1e-12
    except TypeError:
        return False


class CircAng(_Scalar0d):
    """the direction of a non-zero plane vector v = (x, y), read as an angle either in (-pi, pi] (base 'principal', what arctan2
    returns) or in [0, 2pi) (base 'positive', after the library adds 2pi to negative angles).  All predicates are exact algebraic
    statements about v (half-plane tests and cross products)."""

    def __init__(self, x, y, base='principal', deg=False):
        self.x, self.y = F.lift(x), F.lift(y)
        self.base = base
        self.deg = deg

    # half-plane classes of the principal value: -1: (-pi, 0), 0: {0}, 1: (0, pi), 2: {pi}
    def cls(self):
        if bool(self.y > 0):
            return 1
        if bool(self.y < 0):
            return -1
        return 0 if bool(self.x > 0) else 2

    def is_negative(self):
        k = self.k()
        if k != 0:
            return k < 0
        return bool(self.y < 0)

    def as_positive(self):
        """the same direction read in [0, 2pi)"""
        return CircAng(self.x, self.y, 'positive', self.deg)

    def pos_rank(self):
        """rank of the half-plane class in [0, 2pi) order: 0:{0} 1:(0,pi) 2:{pi} 3:(pi,2pi)"""
        c = self.cls()
        return {0: 0, 1: 1, 2: 2, -1: 3}[c]

    def pri_rank(self):
        c = self.cls()
        return {-1: 0, 0: 1, 1: 2, 2: 3}[c]

    @staticmethod
    def cross(a, b):
        return a.x * b.y - a.y * b.x

    def k(self):
        """winding: value = principal + 2*pi*k"""
        if self.base == 'principal':
            return 0
        c = self.cls()
        if self.base == 'positive':
            return 1 if c == -1 else 0
        if self.base == 'negative':
            return -1 if c in (1, 2) else 0
        raise ValueError(self.base)

    def _lt(self, o):
        """self < o as real numbers: compare windings first, then the principal values"""
        ka, kb = self.k(), o.k()
        ra, rb = self.pri_rank(), o.pri_rank()
        if ka != kb:
            # values p + 2 pi k with p in (-pi, pi]: a difference of windings of 2 decides; of 1 needs the principal parts
            if abs(kb - ka) >= 2:
                return ka < kb
            lo, hi = (self, o) if ka < kb else (o, self)
            # hi.value - lo.value = (p_hi - p_lo) + 2 pi > 0  always (p_hi - p_lo > -2 pi)
            return ka < kb
        if ra != rb:
            return ra < rb
        if ra in (1, 3):
            return False                   # same ray: equal
        return bool(CircAng.cross(self, o) > 0)

    def __lt__(self, o):
        if isinstance(o, CircAng):
            return self._lt(o)
        r = _rat(o)
        if r == 0:
            return self.is_negative()
        raise Inconclusive("comparison of an arctan2 angle with a non-zero constant")

    def __gt__(self, o):
        if isinstance(o, CircAng):
            return o._lt(self)
        r = _rat(o)
        if r == 0:
            if self.base == 'positive':
                return self.pos_rank() != 0
            return bool(self.y > 0) or (bool(self.y == 0) and bool(self.x < 0))
        if _is_const(o, PI_F):
            return self.base == 'positive' and self.pos_rank() == 3
        raise Inconclusive("comparison of an arctan2 angle with a non-zero constant")

    def __le__(self, o): return not self.__gt__(o)
    def __ge__(self, o): return not self.__lt__(o)

    def __add__(self, c):
        if _is_const(c, TWO_PI):
            if self.base == 'negative' and self.k() == -1:
                return CircAng(self.x, self.y, 'principal', self.deg)
            if self.base == 'principal' and self.is_negative():
                return self.as_positive()
            raise Inconclusive("adding 2pi to a non-negative angle")
        r = _rat(c)
        if r == 0:
            return self
        raise Inconclusive("adding a constant to an arctan2 angle")

    __radd__ = __add__

    def __sub__(self, o):
        if isinstance(o, CircAng):
            return ArcDiff(o, self)
        r = _rat(o)
        if r == 0:
            return self
        raise Inconclusive("subtracting a constant from an arctan2 angle")

    def __mul__(self, c):
        if _is_const(c, RAD2DEG) or isinstance(c, RadToDeg):
            return CircAng(self.x, self.y, self.base, deg=True)
        r = _rat(c)
        if r == 1:
            return self
        raise Inconclusive("scaling an arctan2 angle")

    __rmul__ = __mul__

    def norm(self):
        return (self.x * self.x + self.y * self.y).sqrt()

    def cos(self):
        return self.x / self.norm()

    def sin(self):
        return self.y / self.norm()

    def evalf_with(self, ev):
        import math
        a = math.atan2(float(ev.f(self.y)), float(ev.f(self.x)))
        if self.base == 'positive' and a < 0:
            a += 2 * math.pi
        return a * (180 / math.pi if self.deg else 1)

    def __repr__(self):
        return f"CircAng(({self.x.pretty()}, {self.y.pretty()}), {self.base}{', deg' if self.deg else ''})"


class ArcDiff(_Scalar0d):
    """b - a for two arctan2 angles of the same base; only ever compared with 0 / pi / another difference from the same start"""

    def __init__(self, a, b, shifted=False):
        self.a, self.b, self.shifted = a, b, shifted

    def K(self):
        return self.b.k() - self.a.k()

    def raw_negative(self):
        """b.value - a.value < 0 (before any normalisation)"""
        if self.shifted:
            return False
        K = self.K()
        if K != 0:
            return K < 0               # |p_b - p_a| < 2 pi, so the windings decide
        return self.b._lt(self.a)

    def rot(self):
        """direction of b rotated by -a: the difference modulo 2pi as a direction"""
        a, b = self.a, self.b
        return CircAng(a.x * b.x + a.y * b.y, a.x * b.y - a.y * b.x, 'positive')

    def _principal_diff_gt_pi(self, lo, hi):
        """p_hi - p_lo > pi  for principal values: needs p_lo < 0 < p_hi and hi clockwise of lo by less than pi"""
        return lo.cls() == -1 and hi.cls() in (1, 2) and bool(CircAng.cross(lo, hi) < 0)

    def __lt__(self, o):
        if isinstance(o, ArcDiff):
            # both normalised to [0, 2pi): compare as positive angles of the rotated directions
            if self.raw_negative() or o.raw_negative():
                raise Inconclusive("comparison of un-normalised angle differences")
            return self.rot()._lt(o.rot())
        r = _rat(o)
        if r == 0:
            return self.raw_negative()
        raise Inconclusive("comparison of an angle difference with a constant")

    def __gt__(self, o):
        if _is_const(o, PI_F):
            if self.shifted:
                return self.rot().pos_rank() == 3
            K = self.K()
            if K >= 2:
                return True
            if K <= -1:
                return False
            if K == 1:
                # (p_b - p_a) + 2 pi > pi  <=>  p_a - p_b < pi  <=>  not (p_a - p_b >= pi)
                a, b = self.a, self.b
                if self._principal_diff_gt_pi(b, a):
                    return False
                # equality p_a - p_b == pi: opposite rays with p_b <= 0 < p_a
                if b.cls() in (-1, 0) and a.cls() in (1, 2) and bool(CircAng.cross(b, a) == 0) and bool(a.x * b.x + a.y * b.y < 0):
                    return False
                return True
            # K == 0
            if self.b._lt(self.a):
                return False
            return self._principal_diff_gt_pi(self.a, self.b)
        if isinstance(o, ArcDiff):
            return o.__lt__(self)
        raise Inconclusive("comparison of an angle difference with a constant")

    def __add__(self, c):
        if _is_const(c, TWO_PI):
            if self.raw_negative():
                return ArcDiff(self.a, self.b, shifted=True)
            raise Inconclusive("adding 2pi to a non-negative angle difference")
        raise Inconclusive("adding a constant to an angle difference")

    __radd__ = __add__


def _arctan2(y, x):
    return CircAng(x, y)


F.arctan2 = _arctan2
