"""Nondeterministic stubs for the LAPACK boundary (DESIGN.md section 1).  A stub returns an *arbitrary* value
allowed by the routine's mathematical contract, parametrised by fresh symbols, so that a verdict covers every
answer LAPACK may give.  The same stub code runs in concrete mode on floats with the witness values of the
fresh symbols (translator validation); counterexample replay uses the real LAPACK.
"""
import itertools
import numpy as np

from .core import Ctx, F, FC, Inconclusive, PathAbort
from . import npmodels

CUR = {'h': None, 'calls': 0}


def _det(M):
    return npmodels.det_sym(M)


def _eye(n, like):
    out = np.empty((n, n), dtype=object)
    for i in range(n):
        for j in range(n):
            out[i, j] = 1 if i == j else 0
    return out


def _sign(h, name):
    """a fresh sign in {+1, -1} (forks); the plan may fix it per instance (opts['fix']) to spread the cases over processes"""
    fx = h.opts.get('fix', {})
    if name in fx:
        return int(fx[name])
    e = h.fresh(name)
    h.assume((e == 1) | (e == -1), 'stub sign')
    return 1 if bool(e == 1) else -1


def orthogonal_param(h, m, tag):
    """an arbitrary element of O(m), m <= 3"""
    if m == 0:
        return np.empty((0, 0), dtype=object)
    if m == 1:
        Q = np.empty((1, 1), dtype=object)
        Q[0, 0] = _sign(h, f"{tag}_e")
        return Q
    if m == 2:
        t = h.fresh(f"{tag}_t")
        eps = _sign(h, f"{tag}_e")
        delta = _sign(h, f"{tag}_d")
        c = (1 - t * t) / (1 + t * t)
        s = 2 * t / (1 + t * t)
        Q = np.empty((2, 2), dtype=object)
        Q[0, 0], Q[0, 1], Q[1, 0], Q[1, 1] = eps * c, -eps * s * delta, eps * s, eps * c * delta
        return Q
    if m == 3:
        # Cayley transform of a skew matrix: all rotations without eigenvalue -1 (rotations by pi excluded -- stated)
        a, b, c = h.fresh(f"{tag}_a"), h.fresh(f"{tag}_b"), h.fresh(f"{tag}_c")
        delta = _sign(h, f"{tag}_d")
        S = np.array([[0, -c, b], [c, 0, -a], [-b, a, 0]], dtype=object)
        I = _eye(3, None)
        Q = (I - S) @ npmodels.inv_sym(I + S)
        Q[:, 2] = Q[:, 2] * delta
        return Q
    raise Inconclusive(f"orthogonal parametrisation of O({m})")


def flag_param(h, m, tag):
    """row-mixing matrices W*U (W signed permutation, U unit upper triangular with free entries): by the Bruhat /
    LQ argument every invertible T equals L*(W*U) with L lower triangular with positive diagonal, and a Gram-Schmidt
    process is invariant under L.  So these represent every null-space basis as far as Gram-Schmidt consumers see."""
    perms = list(itertools.permutations(range(m)))
    fx = h.opts.get('fix', {})
    if f"{tag}_w" in fx:
        w = perms[int(fx[f"{tag}_w"])]
    elif len(perms) > 1:
        sel = h.fresh(f"{tag}_w")
        h.assume(_any([sel == i for i in range(len(perms))]), 'stub permutation selector')
        w = None
        for i in range(len(perms)):
            if bool(sel == i):
                w = perms[i]
                break
    else:
        w = perms[0]
    signs = [_sign(h, f"{tag}_e{i}") for i in range(m)]
    U = np.empty((m, m), dtype=object)
    for i in range(m):
        for j in range(m):
            U[i, j] = 1 if i == j else (h.fresh(f"{tag}_u{i}{j}") if j > i else 0)
    Wm = np.empty((m, m), dtype=object)
    for i in range(m):
        for j in range(m):
            Wm[i, j] = signs[i] if w[i] == j else 0
    return Wm @ U


def _any(conds):
    out = conds[0]
    for c in conds[1:]:
        out = out | c
    return out


def kernel_stub(mat, assume_full_rank=False, matching_rank=True, tolerance=1e-8, with_dimensions=False, with_loc=False, **kw):
    """model of utils.numerical.svd_kernel used as a black box: an arbitrary basis of the null space.
    mode 'general'   : K = K0 @ T with T a fresh invertible matrix;
    mode 'flag'      : K = K0 @ (W U)^T, see flag_param (cheapest exact parametrisation for Gram-Schmidt consumers);
    mode 'orthogonal': K = K0 @ Q^T with Q in O(m) -- sufficient (and exact) when the consumer is a Gram-Schmidt
                       process, which is invariant under lower-triangular row mixing with positive diagonal (LQ decomposition)."""
    h = CUR['h']
    mat = np.asarray(mat)
    sym = h is not None and h.is_sym()
    if h is None or (not sym and not CUR.get('concrete_stub')) or (sym and mat.dtype != object):
        return CUR['orig_kernel'](mat, assume_full_rank=assume_full_rank, matching_rank=matching_rank, tolerance=tolerance,
                                  with_dimensions=with_dimensions, with_loc=with_loc)
    if with_dimensions or with_loc or not matching_rank:
        raise Inconclusive("svd_kernel options not modelled")
    mode = CUR.get('kernel_mode', 'general')
    if sym:
        Ctx.cur.stub_calls.append(f"svd_kernel:arbitrary-null-space-basis[{mode}]")
    out_shape = mat.shape[:-2]
    k, n = mat.shape[-2:]
    m = n - k
    if m < 0:
        raise Inconclusive("kernel stub: more rows than columns")
    if m == 0:
        # full-rank square matrix: the null space is trivial (contract of a kernel routine: an (n, 0) basis)
        return np.empty(out_shape + (n, 0), dtype=object if sym else float)
    res = np.empty(out_shape + (n, m), dtype=object if sym else float)
    for idx in np.ndindex(*out_shape):
        M = mat[idx]
        CUR['calls'] += 1
        tag = f"_k{CUR['calls']}"
        # pivot columns: first k-subset with non-vanishing minor (full row rank is the caller's contract)
        chosen = None
        for cols in itertools.combinations(range(n), k):
            minor = M[:, list(cols)]
            d = _det(np.asarray(minor, dtype=object)) if sym else np.linalg.det(minor.astype(float))
            if sym:
                nz = bool(d != 0)
            else:
                nz = abs(d) > 1e-9
            if nz:
                chosen = cols
                break
        if chosen is None:
            if sym:
                raise PathAbort()
            raise np.linalg.LinAlgError("rank deficient")
        free = [j for j in range(n) if j not in chosen]
        piv = M[:, list(chosen)]
        rest = M[:, free]
        if sym:
            pinv = npmodels.inv_sym(np.asarray(piv, dtype=object))
        else:
            pinv = np.linalg.inv(piv.astype(float))
        K0 = np.empty((n, m), dtype=object if sym else float)
        top = -(pinv @ rest)
        for c in range(m):
            for r_i, j in enumerate(free):
                K0[j, c] = 1 if r_i == c else 0
            for r_i, j in enumerate(chosen):
                K0[j, c] = top[r_i, c]
        if mode == 'orthogonal':
            Q = orthogonal_param(h, m, tag)
            if not sym:
                Q = np.array(Q, dtype=float)
            K = K0 @ Q.T
        elif mode == 'flag':
            Q = flag_param(h, m, tag)
            if not sym:
                Q = np.array(Q, dtype=float)
            K = K0 @ Q.T
        else:
            T = np.empty((m, m), dtype=object if sym else float)
            for i in range(m):
                for j in range(m):
                    T[i, j] = h.fresh(f"{tag}_T{i}{j}")
            dT = _det(np.asarray(T, dtype=object)) if sym else np.linalg.det(T)
            h.assume(dT != 0, 'stub: invertible mixing matrix')
            K = K0 @ T
        res[idx] = K
    return res


def install(h, which, **opts):
    """activate a stub for the rest of this harness run; returns an undo callable"""
    from geometry_tools.utils import numerical
    CUR['h'] = h
    if which == 'kernel':
        CUR.setdefault('orig_kernel', numerical.svd_kernel)
        if numerical.svd_kernel is not kernel_stub:
            CUR['orig_kernel'] = numerical.svd_kernel
        CUR['kernel_mode'] = opts.get('mode', 'general')
        numerical.svd_kernel = kernel_stub

        def undo():
            numerical.svd_kernel = CUR['orig_kernel']
        return undo
    raise ValueError(which)


def reset():
    CUR['h'] = None
    CUR['calls'] = 0
    CUR['concrete_stub'] = False
