#!/bin/sh
# build the framework's python environment offline: /venv (the repository's own environment) overlaid with the
# solver tooling from the local wheelhouse.  Idempotent.
set -e
cd "$(dirname "$0")"
if [ ! -x .venv/bin/python ] || ! .venv/bin/python -c "import z3, sympy, crosshair, numpy, scipy" 2>/dev/null; then
  rm -rf .venv
  /venv/bin/python -m venv .venv
  echo "import site; site.addsitedir('/venv/lib/python3.12/site-packages')" > .venv/lib/python3.12/site-packages/_base.pth
  PIP_NO_INDEX=1 .venv/bin/pip install -q --no-index --find-links /opt/veriftools/wheels z3-solver sympy crosshair-tool cvc5 pysmt
fi
.venv/bin/python -c "import z3, sympy, crosshair, numpy, scipy, geometry_tools; print('verif env ok: z3', z3.get_version_string(), 'sympy', sympy.__version__, 'numpy', numpy.__version__)"
