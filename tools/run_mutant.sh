#!/bin/sh
# usage: tools/run_mutant.sh <patch.diff> <PROPERTY-ID> [tier] [VERIF_ONLY-filter]
# applies the patch to a scratch worktree of /repo (outside /repo and /verif), runs the check against it, removes the worktree.
set -e
patch=$(readlink -f "$1"); prop=$2; tier=${3:-quick}; only=$4
name=$(echo "$patch" | md5sum | cut -c1-10)
wt=/tmp/mut/$name
mkdir -p /tmp/mut /tmp/mut/out_$name
git -C /repo worktree add -q --detach "$wt" HEAD
trap 'git -C /repo worktree remove --force "$wt" >/dev/null 2>&1; rm -rf /tmp/mut/out_$name' EXIT
if ! git -C "$wt" apply "$patch" 2>/dev/null; then
  git -C "$wt" apply --3way "$patch" || { echo "PATCH-DOES-NOT-APPLY"; exit 3; }
fi
cd /verif
set +e
VERIF_REPO="$wt" VERIF_OUT=/tmp/mut/out_$name VERIF_ONLY="$only" ./vcheck "$prop" "$tier" > /tmp/mut/out_$name/log 2>&1
rc=$?
grep -E "^VIOLATION|^\[$prop|HARNESS-ERROR" /tmp/mut/out_$name/log | cut -c1-300 | head -8
echo "MUTANT-RESULT prop=$prop patch=$1 exit=$rc"
exit 0
