#!/bin/sh
# usage: tools/verify_seed.sh <seed-out-dir e.g. /tmp/seed/C10/_out/m1> <PROP> <name>
# independently confirms a seeded change (tests same as baseline, demo fails with it, passes without) in a scratch worktree
# and stores it under /verif/seeded/<name>/
src=$1; prop=$2; name=$3
wt=/tmp/mut/vs_$name
mkdir -p /tmp/mut
git -C /repo worktree add -q --detach "$wt" HEAD || exit 3
trap 'git -C /repo worktree remove --force "$wt" >/dev/null 2>&1' EXIT
cd "$wt"
mkdir -p _out/m; cp "$src/demo.py" _out/m/demo.py
/venv/bin/python -m pytest -q -p no:cacheprovider --timeout=900 --continue-on-collection-errors -rA 2>/dev/null | grep -E "^PASSED" | sort > /tmp/mut/base_$name.txt
/venv/bin/python _out/m/demo.py >/dev/null 2>&1; d0=$?
if ! git apply "$src/patch.diff" 2>/dev/null; then git apply --3way "$src/patch.diff" 2>/dev/null || { echo "SEED $name: patch does not apply"; exit 3; }; fi
/venv/bin/python -m pytest -q -p no:cacheprovider --timeout=900 --continue-on-collection-errors -rA 2>/dev/null | grep -E "^PASSED" | sort > /tmp/mut/mut_$name.txt
/venv/bin/python _out/m/demo.py >/dev/null 2>&1; d1=$?
lost=$(comm -23 /tmp/mut/base_$name.txt /tmp/mut/mut_$name.txt | wc -l)
nb=$(wc -l < /tmp/mut/base_$name.txt)
echo "SEED $name: baseline_pass=$nb lost_with_change=$lost demo_clean_exit=$d0 demo_mutated_exit=$d1"
if [ "$lost" = "0" ] && [ "$d0" = "0" ] && [ "$d1" != "0" ]; then
  mkdir -p /verif/seeded/$name
  git diff HEAD > /verif/seeded/$name/patch.diff
  cp "$src/demo.py" /verif/seeded/$name/demo.py
  cp "$src/notes.md" /verif/seeded/$name/notes.md 2>/dev/null
  printf '{"property": "%s", "name": "%s", "verified": {"baseline_tests_passing": %s, "tests_lost_with_change": 0, "demo_exit_clean": %s, "demo_exit_with_change": %s}, "verified_by": "tools/verify_seed.sh in a scratch worktree of /repo HEAD (removed afterwards)"}\n' "$prop" "$name" "$nb" "$d0" "$d1" > /verif/seeded/$name/meta.json
  echo "SEED $name: KEPT"
else
  echo "SEED $name: REJECTED"
fi
rm -f /tmp/mut/base_$name.txt /tmp/mut/mut_$name.txt
