#!/bin/sh
# run the thorough tier of the listed checks one after another (evidence redirected), log one summary line each
mkdir -p /tmp/thor_out
for id in "$@"; do
  t0=$(date +%s)
  VERIF_JOBS=${VERIF_JOBS:-10} VERIF_OUT=/tmp/thor_out nice -n 5 ./vcheck $id thorough > /tmp/thor_out/$id.log 2>&1
  rc=$?
  t1=$(date +%s)
  echo "$id exit=$rc wall=$((t1-t0))s $(grep -E "^\[$id thorough\]" /tmp/thor_out/$id.log | cut -c1-260)" >> /tmp/thorough.txt
done
