"""print a python file without docstrings/comment-only lines, with original line numbers"""
import ast, sys
src = open(sys.argv[1]).read()
tree = ast.parse(src)
skip = set()
for node in ast.walk(tree):
    if isinstance(node, (ast.FunctionDef, ast.ClassDef, ast.Module, ast.AsyncFunctionDef)):
        b = node.body
        if b and isinstance(b[0], ast.Expr) and isinstance(b[0].value, ast.Constant) and isinstance(b[0].value.value, str):
            for l in range(b[0].lineno, b[0].end_lineno + 1): skip.add(l)
for i, line in enumerate(src.split("\n"), 1):
    if i in skip or not line.strip() or line.strip().startswith("#"): continue
    print(f"{i}\t{line}")
