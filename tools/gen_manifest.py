#!/usr/bin/env python3
"""regenerate /verif/MANIFEST.json from the table below (keeps it schema-valid as checks are added)."""
import json, os
HERE = os.path.dirname(os.path.dirname(os.path.abspath(__file__)))
E1 = "symnp"
CHECKS = {
 # id: (engine, technique, level text, note, design_ref)
 "C01": (E1, "symbolic execution of the real NumPy code over exact reals (normal form + z3 QF_NRA), per-path witness replay",
         "bounded symbolic verification: all real coordinates in dimensions n<=2 (quick) / n<=4 (thorough), all ordered model pairs, "
         "composite shapes up to (2,), closed-form metrics, metric laws incl. triangle inequality in H^1; unsat = holds for every real input in the bound",
         "real-number semantics (no rounding); z3 verdicts; sympy normal forms; see evidence.assumptions / trusted_base", "3/C01"),
}
_T = "symbolic execution of the real NumPy code over exact reals (normal form + z3 QF_NRA), per-path witness replay on the float code"
_N = "real-number semantics (no rounding); z3 verdicts; sympy normal forms; stubs and assumptions listed in the evidence"
def _add(pid, text, ref=None, tech=_T, note=_N, eng=E1):
    CHECKS[pid] = (eng, tech, text, note, ref or f"3/{pid}")
_add("C02", "bounded symbolic verification of every isometry constructor: form preservation, distance preservation, orientation, closure under composition/inverse by one inductive step; polynomial constructors n<=3/4; origin_to, timelike_to, spacelike_to, reflection_across, TangentVector.origin_to in H^2 with a nondeterministic null-space stub (Gram-Schmidt-exhaustive parametrisation)")
_add("C03", "bounded symbolic verification of the group-action laws (associativity, identity, inverse, type, shape, representation boundary) for all 15 object classes with symbolic invertible matrices, ambient dimension 3 (quick) / 2..4 (thorough), real and complex")
_add("C05", "bounded symbolic verification: all words over {a,b,A,B} up to length 4 (quick) / 5 (thorough) with symbolic invertible generator matrices; every derived representation against an independent reference; Fox fundamental formula and cocycle annihilation")
_add("C16", "bounded symbolic verification of chart conversions (real and complex, dimensions 1..3 / 1..5), chart membership path analysis, affine maps, subspace intersection with a null-space stub, eigenvector / diagonalize with an eigen stub (real, complex-pair and composite)")
_add("C17", "bounded symbolic verification: homomorphism / identity / determinant / invariant-form / definedness identities for sl2_irrep (n<=6), sl2_to_so21, gln/sln adjoint (n<=3), slc_to_slr, sl2c_to_so31, block_include and the lie.hom wrappers, single matrices and stacks; o_to_pgl round trip (known finding reported as KNOWN-FINDING)")
_add("C12", "bounded symbolic verification of invariance under independent per-unit homogeneous rescalings (symbolic non-zero factors of either sign): model coordinates, distances, segment ideal endpoints, circle centre/radius, tangent direction against an independent reference, images under transformations, polygon edges, origin_to targets; n<=2 (quick) / n<=3 (thorough).  The number-packaging half of C12 is outside this technique (stated in the evidence)")
_CT = "CrossHair (z3-backed symbolic execution of the real Python automata code) per configuration slice, 16 processes; counterexamples replayed in plain Python"
_CN = "tables are enumerated configurations; CrossHair decides over the symbolic arguments only and 'Confirmed over all paths' is claimed only when it reports exhaustion; reference models in harness/chbodies.py are trusted"
_add("C06", "bounded symbolic verification (CrossHair) of automaton_accepted / freely_reduced_elements against a reference path enumeration, for all 2x2 tables and symbolic length / options / states", tech=_CT, note=_CN, eng="crosshair")
_add("C09", "bounded symbolic verification (CrossHair) of view coherence after construction by 4 routes and histories of depth <=2 (quick) / <=3 (thorough) with a symbolic last operation, the no-aliasing representation invariant, and kbmag record loading", tech=_CT, note=_CN, eng="crosshair")
_add("C10", "bounded symbolic verification (CrossHair) of walk / enumeration / k-multiple / relabelling / recurrent / shortest-path operations against set-based reference models for all 2x2 tables (3x2, 2x3 samples in thorough) and symbolic words, starts, k, maps, roots", tech=_CT, note=_CN, eng="crosshair")
_add("C07", "bounded model checking: per Coxeter matrix (125 rank-3 + rank-2/4 families in quick; 343 rank-3, 240 rank-4, 10 rank-5 in thorough) the real geodesic / shortlex / even automata tables are compared with an exact cyclotomic Cayley-ball oracle over ALL words up to length 6-12 by one z3 query each",
     tech="SMT bounded model checking (z3 QF_UFLIA) of the real automaton tables with a symbolic word against an exact cyclotomic-arithmetic oracle; witness words replayed with FSA.accepts",
     note="Coxeter matrices are enumerated configurations; nothing is claimed beyond the word-length bound; oracle = exact integer arithmetic + Tits faithfulness", eng="smtbmc")
_add("C11", "bounded symbolic verification: operation histories of depth 1-2 (3 for projective polygons in thorough) over {copy, reconstruct, apply, reshape, flatten, index, setitem, stack, combine, astype} on projective/hyperbolic polygons, segments, tangent vectors with symbolic entries; stored derived data vs recomputed (projectively); read-only queries leave objects and caller arrays unchanged")
_add("C04", "bounded symbolic verification over enumerated composite-shape configurations (rank 0-2, sizes 1-2 quick; sizes up to 3 and rank 3 thorough) with all entries distinct symbols: matrix_product, apply in three broadcast modes, vectorised point / segment / polygon / SL(2) operations and restructuring compared unit by unit")
_add("C08", "bounded symbolic verification in exact algebraic arithmetic (cos(pi/m) as algebraic atoms): involution, (s_i s_j)^m = 1, exact order, cosine-form preservation, reflection formula, canonical = dual, construction routes / naming agree, Tits-Vinberg and non-symmetric Cartan parameters, for rank 2 (labels 2..12, inf), 130 rank-3 triples and rank 4-5 samples (quick); hyperbolic_rep and triangle angles are outside (stated)")
_add("C13", "bounded symbolic verification in H^2 (+ an H^3 square): origin_to and TangentVector.origin_to targets, point_along with a symbolic signed distance t = ln E (exact side, distance and geodesic), reaching q along the unit tangent, TangentVector.angle for unit and general vectors against the law of cosines (arccos/arctan carried by cosine and sine), regular polygons with 3, 4, 6 sides (5, 7, 8 attempted in thorough) with symbolic interior angle and exact cos(pi/n)")
_add("C18", "bounded symbolic verification of indefinite_orthogonalize (signatures p+q<=3), find_isometry (null-space stub), diagonalize_form (spectral eigh stub, n<=3), svd_kernel (SVD stub, rank patterns up to 3x3), circle_through / sphere_through and the arc-ordering helpers on arctan2 angles modelled as plane directions")
_add("C14", "bounded symbolic verification of circle / sphere parameters in both conformal models: endpoints on the reported circle, orthogonality to the boundary, reported angles (arctan2 values as plane directions) point to the endpoints and bound the arc inside the model, degrees flag, enum vs string model, horospheres, subspace spheres (known finding for planes in H^3 reported as KNOWN-FINDING)")
_add("C15", "bounded symbolic verification with a nondeterministic eigen-decomposition stub (arbitrary eigenvalue order, arbitrary eigenvector scale; per element for composites): loxodromic and elliptic fixed points for both representative signs, composite fixed points, reflection_across (incl. a moved wall), from_reflection round trip, rejection of non-reflections; H^2")
_add("C20", "PARTIAL: bounded symbolic verification: spherical/projective conversion and stereographic projection, CP1Disk centre/radius, images of disks under symbolic affine Moebius maps, contains/intersects (elementwise, pairwise) for all four combinations of bounded disks and disks containing infinity (the latter given by their four defining points); Fubini-Study construction, fs_center/fs_diameter, complement()/inversion() and non-affine Moebius images in the quick tier are outside (stated)")
NA = {"C19": "not applicable to solver-based checking: drawing casts to float64 and hands the data to matplotlib (compiled spline / arc code, isnan and 1e-4 thresholds on Bezier vertices); no symbolic value survives the cast and no installed SMT theory covers the arctan2/cos/sin spline tables. The geometric content drawing relies on (circle parameters, arc selection) is checked under C14 / C18. See DESIGN.md section 5."}
def main():
    checks = []
    for pid, (eng, tech, text, note, ref) in sorted(CHECKS.items()):
        checks.append(dict(property_id=pid, quick_cmd=f"./vcheck {pid} quick", thorough_cmd=f"./vcheck {pid} thorough",
                           evidence_file=f"/verif/evidence/{pid}.json", replay_cmd_template="./vcheck --replay {path}", engine=eng,
                           level_claimed=dict(category="other", text=text, design_ref=f"DESIGN.md section {ref}"),
                           level_note=note, technique=tech))
    props = [json.loads(l)['id'] for l in open(os.path.join(HERE, 'properties.jsonl'))]
    na = [dict(property_id=p, reason=NA.get(p, "check not built yet in this revision (planned, see DESIGN.md section 3)")) for p in props if p not in CHECKS]
    m = dict(version=1, setup_cmd="sh ./setup.sh",
             hooks=dict(guard="GEOMETRY_TOOLS_VERIF", enable="no source hooks: all instrumentation is monkey-patching from the harness process (numpy namespace models, sys.monitoring)",
                        baseline_off_cmd="cd /repo && /venv/bin/python -m pytest -ra -q -p no:cacheprovider --timeout=900 --continue-on-collection-errors",
                        source_commits=[], add_only=True),
             engines=[dict(name="symnp", path="/verif/symnp", serves_properties=[p for p, c in CHECKS.items() if c[0] == E1],
                           kind_free_text="symbolic execution of the library's own NumPy code on object arrays of exact symbolic scalars; z3 decides path feasibility, goals, obligations; counterexamples replayed on the real float code"),
                      dict(name="crosshair", path="/verif/harness/crosshair", serves_properties=[p for p, c in CHECKS.items() if c[0] == 'crosshair'],
                           kind_free_text="CrossHair (z3-backed symbolic execution of Python) over the pure-Python automata code, sliced over 16 processes"),
                      dict(name="smtbmc", path="/verif/smtbmc", serves_properties=[p for p, c in CHECKS.items() if c[0] == 'smtbmc'],
                           kind_free_text="bounded model checking of concrete automaton tables against an exact oracle table with a symbolic word (z3)")],
             checks=checks, not_applicable=na,
             notes="exit codes: 0 held; 1 VIOLATION (replayed on the real code); 2 harness error. VERIF_REPO overrides /repo (mutation self-test).")
    json.dump(m, open(os.path.join(HERE, 'MANIFEST.json'), 'w'), indent=1)
if __name__ == '__main__':
    main()
