#!/usr/bin/env python3
"""print the per-property status table (markdown) from the evidence files written by the last runs"""
import json, glob, os, sys
d = sys.argv[1] if len(sys.argv) > 1 else os.path.join(os.path.dirname(__file__), '..', 'evidence')
print("| id | tier | instances | obligations discharged | inconclusive | known findings | wall |")
print("|---|---|---|---|---|---|---|")
for f in sorted(glob.glob(os.path.join(d, 'C*.json'))):
    e = json.load(open(f))
    c = e['coverage']
    print(f"| {e['property_id']} | {e['tier']} | {len(c.get('instances', []))} | {c['discharged']} / {c['obligations']} | {c.get('inconclusive_count', 0)} | "
          f"{len(c.get('known_findings_reported', []))} | {e['wall_s']:.0f} s |")
