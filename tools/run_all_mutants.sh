#!/bin/sh
# run every stored seeded change against the check of its property (quick tier); append to /tmp/mut/results.txt
mkdir -p /tmp/mut
for d in "$@"; do
  name=$(basename $d); prop=$(echo $name | cut -d- -f1)
  echo "=== $name" >> /tmp/mut/results.txt
  nice -n 10 /verif/tools/run_mutant.sh $d/patch.diff $prop quick >> /tmp/mut/results.txt 2>&1
done
