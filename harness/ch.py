"""Engine E2: CrossHair (z3-backed symbolic execution of Python) over conditions about the real automata code.

One instance = one generated file with a batch of condition functions (one per configuration slice: the automaton
table / construction route is a concrete configuration, everything else -- word, length, start state, options,
operation arguments -- is a symbolic integer with a PEP-316 precondition) plus a reachability twin whose
postcondition is False-by-construction and which CrossHair must refute.  `crosshair check --report_all` verdicts:
  Confirmed over all paths  -> discharged          false when calling f(args) -> replayed in plain Python -> violation
  Not confirmed / Unable to meet precondition / timeout -> inconclusive
"""
import json
import os
import re
import subprocess
import sys
import tempfile
import time

HERE = os.path.dirname(os.path.dirname(os.path.abspath(__file__)))


def _gen(batch, sig, pre, call, repo):
    """batch: list of dicts with constants; call: python expression using names of sig and constants via {name}"""
    lines = ["import sys", f"sys.path.insert(0, {repo!r}); sys.path.insert(1, {HERE!r})", "import geometry_tools, geometry_tools.automata.fsa, geometry_tools.automata.gap_parse, geometry_tools.representation, geometry_tools.utils.words",
             f"assert geometry_tools.__file__.startswith({repo!r}), geometry_tools.__file__",
             "from harness import chbodies as B", ""]
    args = ", ".join(f"{n}: {t}" for n, t in sig)
    index = {}
    for k, consts in enumerate(batch):
        expr = call.format(**consts)
        lines.append(f"def cond_{k}({args}) -> bool:")
        lines.append('    """')
        for p in pre:
            lines.append(f"    pre: {p.format(**consts)}")
        lines.append("    post: _")
        lines.append('    """')
        index[len(lines) - 1] = k          # approximate; resolved by name below
        lines.append("    try:")
        lines.append(f"        return {expr}")
        lines.append("    except Exception:")
        lines.append("        return False")
        lines.append("")
    lines.append(f"def reach({args}) -> bool:")
    lines.append('    """')
    for p in pre:
        lines.append(f"    pre: {p.format(**batch[0])}")
    lines.append("    post: not _")
    lines.append('    """')
    lines.append("    return True")
    lines.append("")
    return "\n".join(lines)


def _func_at(src_lines, lineno):
    """name of the function whose body contains the (1-based) line"""
    for i in range(lineno - 1, -1, -1):
        m = re.match(r"def (\w+)\(", src_lines[i])
        if m:
            return m.group(1)
    return None


def run(body, batch, sig, pre, call, per_condition_timeout=60, opts=None):
    opts = opts or {}
    repo = os.environ.get('VERIF_REPO', '/repo')
    src = _gen(batch, sig, pre, call, repo)
    tmp = tempfile.mkdtemp(prefix='ch_')
    path = os.path.join(tmp, 'cond.py')
    open(path, 'w').write(src)
    src_lines = src.split("\n")
    t0 = time.time()
    env = dict(os.environ)
    env['PYTHONPATH'] = HERE + os.pathsep + env.get('PYTHONPATH', '')
    cmd = [sys.executable, '-m', 'crosshair', 'check', '--report_all', '--per_condition_timeout', str(per_condition_timeout), path]
    try:
        p = subprocess.run(cmd, cwd=tmp, env=env, capture_output=True, text=True, timeout=per_condition_timeout * (len(batch) + 1) + 120)
        out = p.stdout + p.stderr
    except subprocess.TimeoutExpired as e:
        out = (e.stdout or "") + (e.stderr or "") if isinstance(e.stdout, str) else ""
    verdict = {}
    for line in out.split("\n"):
        m = re.match(r".*cond\.py:(\d+): (info|error): (.*)", line)
        if not m:
            continue
        fn = _func_at(src_lines, int(m.group(1)))
        verdict.setdefault(fn, []).append(m.group(3))
    stats = dict(paths=0, vacuous_paths=0, paths_validated=0, paths_not_validated=0, obligations=0, discharged=0, closed_by_normal_form=0,
                 closed_by_construction=0, solver_unsat=0, goal_queries=0, branch_queries=0, goal_solver_s=0.0, branch_solver_s=0.0,
                 inconclusive=[], violations=[], unconfirmed=[], translation_mismatch=[], samples=[], functions=[], stubs=[], float_sites=[])
    # reachability twin
    rv = verdict.get('reach', [])
    reach_ok = any(v.startswith('false when calling') for v in rv)
    ns = {}
    exec(compile(src, path, 'exec'), ns)
    for k, consts in enumerate(batch):
        fn = f"cond_{k}"
        stats['obligations'] += 1
        stats['paths'] += 1
        vs = verdict.get(fn, [])
        conf = any(v.startswith('Confirmed over all paths') for v in vs)
        cex = [v for v in vs if v.startswith('false when calling')]
        if cex:
            m = re.match(r"false when calling (cond_\d+\(.*\)) \(which returns", cex[0])
            callstr = m.group(1) if m else None
            reproduced = False
            if callstr:
                try:
                    reproduced = (eval(callstr, ns) is False)
                except Exception as e:
                    reproduced = False
            if reproduced:
                stats['violations'].append(dict(goal=f"{body}", kind='crosshair', consts=consts, call=callstr,
                                                expr=call.format(**consts), detail=cex[0][:300], env={}))
            else:
                stats['unconfirmed'].append(dict(goal=body, tried=[cex[0][:300]]))
            continue
        if conf and reach_ok:
            stats['discharged'] += 1
            stats['solver_unsat'] += 1
            stats['paths_validated'] += 1
            if len(stats['samples']) < 2:
                stats['samples'].append(dict(goal=body, verdict='Confirmed over all paths', configuration=consts,
                                             symbolic_arguments=[n for n, _ in sig], preconditions=[q.format(**consts) for q in pre]))
        else:
            why = "; ".join(vs) if vs else "no verdict (time cap)"
            if conf and not reach_ok:
                why = "confirmed but the reachability twin was not refuted (vacuous?)"
                stats['vacuous_paths'] += 1
            stats['inconclusive'].append(dict(goal=body, configuration=consts, reason=why[:200]))
    stats['nontrivial'] = stats['discharged']
    stats['functions'] = [f"automata/fsa.py (via harness.chbodies.{body})"]
    stats['goal_solver_s'] = time.time() - t0
    try:
        import shutil
        shutil.rmtree(tmp)
    except OSError:
        pass
    return stats


def replay(v):
    """re-run a stored violation in plain Python; exit status 1 if it still fails"""
    sys.path.insert(0, os.environ.get('VERIF_REPO', '/repo'))
    sys.path.insert(1, HERE)
    from harness import chbodies as B
    m = re.match(r"cond_\d+\((.*)\)$", v['call'])
    sigvals = m.group(1)
    names = [n for n, _ in v['spec']['params']['sig']]
    # crosshair prints positional or keyword arguments
    env = {}
    parts = [p.strip() for p in sigvals.split(",")] if sigvals else []
    for i, p in enumerate(parts):
        if "=" in p:
            k, val = p.split("=")
            env[k.strip()] = eval(val)
        else:
            env[names[i]] = eval(p)
    try:
        r = eval(v['expr'], {'B': B}, env)
    except Exception as e:
        print("raised", type(e).__name__, e)
        r = False
    print("replay", v['expr'], env, "->", r)
    return 0 if r else 1
