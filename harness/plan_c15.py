from .registry import inst


def plan(tier):
    q = tier == 'quick'
    I = []
    for s in (1, -1):
        I.append(inst(f"loxodromic-fixed-points[n=2,representative sign={s}]", 'harness.c15', 'loxodromic_fixed_points', dict(n=2, rep_sign=s), weight=10, timeout_s=900))
        I.append(inst(f"elliptic-fixed-point[n=2,representative sign={s}]", 'harness.c15', 'elliptic_fixed_point', dict(n=2, rep_sign=s), weight=10, timeout_s=900))
    for kind in ('rotation', 'loxodromic'):
        I.append(inst(f"non-reflection-rejected[{kind}]", 'harness.c15', 'non_reflection_rejected', dict(kind=kind), weight=8, timeout_s=900))
    for k in ((0, 3) if q else range(8)):
        fx = {"_k1_w": k // 4, "_k1_e0": 1 if (k // 2) % 2 == 0 else -1, "_k1_e1": 1 if k % 2 == 0 else -1}
        I.append(inst(f"reflection_across[n=2,kernel-case={k}]", 'harness.c15', 'reflection', dict(n=2), opts=dict(fix=fx), weight=80, timeout_s=1500))
    for perm in ((0,) if q else range(6)):
        fx = {"eig_perm": perm, "_k1_w": 0, "_k1_e0": 1, "_k1_e1": 1}
        I.append(inst(f"from_reflection[n=2,eigenvalue-order={perm}]", 'harness.c15', 'from_reflection', dict(n=2), opts=dict(fix=fx), weight=300, timeout_s=1500))
    if not q:
        I.append(inst("composite-rejection[reflection + rotation]", 'harness.c15', 'composite_rejection', {}, opts=dict(fix={"eig_perm0": 0, "eig_perm1": 0}, max_vars=64), weight=300, timeout_s=1500))
    pairs = [(0, 3), (1, 4), (5, 0), (2, 2), (3, 1)] if q else [(a, b) for a in range(6) for b in range(6)]
    for (a, b) in pairs:
        I.append(inst(f"composite-fixed-points[eigenvalue-orders=({a},{b})]", 'harness.c15', 'composite_fixed_points', dict(n=2),
                      opts=dict(fix={"eig_perm0": a, "eig_perm1": b}), weight=5, timeout_s=900))
    return dict(
        instances=I,
        explanation=("bounded symbolic verification with a nondeterministic eigen-decomposition stub: the isometry is built as C L C^-1 (L standard "
                     "loxodromic with symbolic lambda > 1, or a symbolic rotation; C a symbolic isometry from the polynomial constructors; either "
                     "homogeneous representative sign), so its exact spectrum and eigenvectors are known; np.linalg.eig is replaced by a stub that returns "
                     "the eigenvalues in an arbitrary (forked) order and every eigenvector with an arbitrary scale of norm in [1/2, 2] (real scale for real "
                     "eigenvalues, complex otherwise) -- a superset of what LAPACK returns.  The REAL Isometry._fixpoint_data / fixed_point_pair / "
                     "fixed_point / Hyperplane.from_reflection then run symbolically (np.lexsort / argmin on symbolic keys fork).  Goals: attracting "
                     "endpoint first, both endpoints lightlike, non-zero and fixed; elliptic fixed point = C(origin), timelike and fixed; non-reflections "
                     "rejected on every path (GeometryError)"),
        bounds=dict(dimension="H^2 (simple spectrum)", conjugators="standard_rotation(theta) for loxodromics, standard_loxodromic(mu) for elliptics", lam="all lambda > 1, all rotation angles except 0 and pi"),
        outside=["parabolic isometries (not diagonalisable: no eigen stub)", "dimension >= 3 (eigenvalue 1 is repeated: the simple-spectrum stub does not apply)",
                 "the composite rejection rule of from_reflection is checked in the thorough tier only (one eigenvalue order, 10 min)",
                 "reflections arising from Coxeter representations (hyperbolic_rep is outside, see C08)"],
        assumptions=["eigenvector norms in [1/2, 2]; real eigenvectors for real eigenvalues (LAPACK contract)", "lambda > 1; sin(theta) != 0"],
    )
