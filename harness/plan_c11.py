import itertools
from .registry import inst

KINDS = ['proj.Polygon', 'hyp.Polygon', 'hyp.Segment', 'hyp.TangentVector']
OPS = ['copy', 'reconstruct', 'apply', 'reshape', 'flatten', 'index', 'index_units', 'setitem', 'stack', 'combine', 'astype']
QUERIES = ['coords:poincare', 'coords:halfspace', 'coords:hyperboloid', 'coords:klein', 'coords:projective', 'distance', 'tangent', 'segment:poincare',
           'segment:halfspace', 'tv', 'origin_to']


def plan(tier):
    q = tier == 'quick'
    I = []
    for kind in KINDS:
        heavy = kind != 'proj.Polygon'
        for shape in [(), (2,)]:
            seqs = [(o,) for o in OPS]
            if not heavy or not q:
                seqs += [s for s in itertools.product(OPS, repeat=2) if s[0] != s[1] or s[0] == 'apply']
            elif q and shape == (2,):
                seqs += [('apply', 'setitem'), ('setitem', 'apply'), ('stack', 'index'), ('reshape', 'setitem'), ('flatten', 'index'), ('copy', 'setitem'),
                         ('combine', 'index'), ('index', 'stack')]
            elif q:
                # two symbolic isometries in a row on a Segment / hyperbolic Polygon (ideal endpoints recomputed through a square root of a
                # degree-8 polynomial) do not finish within the quick budget since the endpoints are normalised (repair 8192a51): thorough only
                seqs += ([('apply', 'apply')] if kind == 'hyp.TangentVector' else []) + [('astype', 'apply'), ('stack', 'setitem'), ('combine', 'setitem')]
            if not q and kind == 'proj.Polygon':
                seqs += [s for s in itertools.product(['apply', 'setitem', 'stack', 'reshape', 'combine', 'index'], repeat=3)]
            for s in seqs:
                if shape == () and all(o in ('index', 'setitem', 'flatten') for o in s):
                    continue
                if q and kind == 'hyp.Polygon' and shape == (2,) and s == ('apply',):
                    continue        # 10-15 min since repair 8192a51 (thorough only); setitem/apply and apply/setitem on the same shape stay in quick
                napply = sum(1 for o in s if o == 'apply')
                w = (8 if heavy else 1) * (1 + 3 * napply)
                I.append(inst(f"coherent[{kind},shape={shape},{'/'.join(s)}]", 'harness.c11', 'coherent', dict(kind=kind, n=2, shape=shape, ops=list(s)),
                              weight=w, timeout_s=(360 if q else 900), opts=dict(max_vars=72)))
    for qu in QUERIES:
        I.append(inst(f"query[{qu},n=2]", 'harness.c11', 'queries', dict(n=2 if qu != 'origin_to' else 1, query=qu), weight=10, timeout_s=900))
    for qu in ('hyperboloid', 'klein', 'segment', 'geodesic'):
        I.append(inst(f"ideal-query[{qu}]", 'harness.c11', 'ideal_queries', dict(n=2, query=qu), weight=10, timeout_s=900))
    return dict(
        instances=I,
        explanation=("bounded symbolic verification: projective / hyperbolic Polygon, Segment and TangentVector objects with symbolic entries go through every "
                     "operation history of the stated depth (construct, copy, reconstruct, apply a symbolic isometry / transformation, reshape, flatten, index, "
                     "item assignment, stacking from a list, combine, astype); afterwards the stored auxiliary data is compared projectively (row by row) with the "
                     "auxiliary data recomputed from the primary data by the class constructor.  Queries: before/after comparison of the object's data "
                     "(projectively) and of the caller's arrays (entrywise).  Exact normal forms / z3; histories are enumerated, entries are symbolic"),
        bounds=dict(dimension="H^2 / RP^2", composite_shapes="() and (2,)", history_depth="1 for all classes, 2 for projective polygons and a fixed selection for hyperbolic classes (quick); 2 for all, 3 for projective polygons (thorough)",
                    isometries="standard_rotation(theta) @ standard_loxodromic(lambda), both symbolic"),
        outside=["ConvexPolygon", "dimension > 2", "fixed-point queries (see C15)", "isometry_to queries beyond origin_to in H^1"],
        assumptions=["interior points, distinct segment endpoints", "lambda > 0"],
    )
