"""C20 -- CP^1 points, disks and Moebius maps (the part reachable by exact symbolic execution)."""
import numpy as np
from geometry_tools import complex_projective as cp, projective, utils
from symnp import npmodels
from symnp.core import F, FC


class _c_to_r_model:
    """utils.c_to_r does astype('complex').view('(2,)float'), which cannot act on object arrays: replaced (symbolic mode only) by its
    two-line meaning (..., n) complex -> (..., n, 2) real"""
    def __init__(self, h):
        self.h = h

    def __enter__(self):
        if self.h.is_sym():
            import geometry_tools.utils.core as core
            self.saved = (core.c_to_r, utils.c_to_r)

            def c_to_r(a):
                a = np.asarray(a, dtype=object)
                out = np.empty(a.shape + (2,), dtype=object)
                for idx in np.ndindex(*a.shape):
                    z = FC.lift(a[idx])
                    out[idx + (0,)] = z.re
                    out[idx + (1,)] = z.im
                return out
            core.c_to_r = c_to_r
            utils.c_to_r = c_to_r
        return self

    def __exit__(self, *a):
        if self.h.is_sym():
            import geometry_tools.utils.core as core
            core.c_to_r, utils.c_to_r = self.saved


def _sphere_point(h, name):
    u, v = h.var(name + "u"), h.var(name + "v")
    d = u * u + v * v + 1
    return np.array([2 * u / d, 2 * v / d, (u * u + v * v - 1) / d], dtype=object if h.is_sym() else float)


def spherical(h):
    """spherical and homogeneous coordinates are mutually inverse and agree with stereographic projection (both charts)"""
    with _c_to_r_model(h):
        s = _sphere_point(h, 's')
        p = cp.spherical_to_projective(s.copy())
        back = cp.projective_to_spherical(p)
        h.eq("projective_to_spherical(spherical_to_projective(s)) = s", back, s)
        # stereographic projection from the north pole: (x + i y) / (1 - z) is the affine coordinate z1 / z0
        x, y, z = s
        lhs_re = p[1].real * p[0].real + p[1].imag * p[0].imag if not h.is_sym() else None
        if h.is_sym():
            z0, z1 = FC.lift(p[0]), FC.lift(p[1])
            # z1 * (1 - z) == z0 * (x + i y)
            l = z1 * (1 - z)
            r = z0 * FC(x, y)
            h.eq("stereographic projection (re)", l.re, r.re, validate=False)
            h.eq("stereographic projection (im)", l.im, r.im, validate=False)
            h.holds("non-zero homogeneous vector", (z0 != 0) | (z1 != 0))
        else:
            h.eq("stereographic projection", p[1] * (1 - z), p[0] * complex(x, y))
            h.holds("non-zero homogeneous vector", abs(p[0]) + abs(p[1]) > 1e-9)
        pt = cp.CP1Point(s.copy(), coords="spherical")
        h.eq("CP1Point(spherical).spherical_coords()", pt.spherical_coords(), s)


def _disk(h, name, query_first=False):
    c = h.cvar(name + "c")
    r = h.var(name + "r")
    h.assume(r > 0, 'radius > 0')
    D = cp.CP1Disk(np.array(c, dtype=object) if h.is_sym() else np.array(c), np.array(r, dtype=object) if h.is_sym() else np.array(r))
    return D, c, r


def disk_parameters(h):
    """a disk built from an affine centre and radius reports that centre and radius"""
    with _c_to_r_model(h):
        D, c, r = _disk(h, 'd')
        ctr, rad = D.circle_parameters()
        cre, cim = (c.re, c.im) if h.is_sym() else (c.real, c.imag)
        h.eq("reported centre", ctr, np.array([cre, cim], dtype=object if h.is_sym() else float))
        h.eq("reported radius", rad, r)
        ip = D.interior_point().proj_data
        if h.is_sym():
            z0, z1 = FC.lift(ip[0]), FC.lift(ip[1])
            d = z1 - z0 * c
            h.holds("interior point inside", (d.re * d.re + d.im * d.im) < r * r * (z0.re * z0.re + z0.im * z0.im))
        else:
            h.holds("interior point inside", abs(ip[1] / ip[0] - c) < r)
        h.holds("center_inside", bool(np.all(D.center_inside())))


def moebius(h, kind='affine'):
    """a Moebius transformation maps the disk to the disk bounded by the image circle (also after the circle was queried before)"""
    with _c_to_r_model(h):
        D, c, r = _disk(h, 'd')
        D.circle_parameters()                       # a query before the transformation (a stale cache would show below)
        if kind == 'affine':
            a, b = h.cvar('a'), h.cvar('b')
            one = (a * 0 + 1)
            M = np.array([[one, b], [0 * a, a]], dtype=object if h.is_sym() else complex)      # row action: z -> a z + b
            h.assume(a != 0, 'invertible')
        elif kind == 'inversion':
            t = h.cvar('t')
            one = t * 0 + 1
            M = np.array([[0 * t, one], [one, t]], dtype=object if h.is_sym() else complex)    # z -> 1/(z + t)-type map
        else:
            M = h.carr('M', (2, 2))
            det = M[0, 0] * M[1, 1] - M[0, 1] * M[1, 0]
            h.assume(det != 0, 'invertible')
        T = projective.Transformation(M)
        E = T @ D
        h.holds("type", isinstance(E, cp.CP1Disk))
        bp = E.boundary_points().proj_data
        # image boundary points in the affine chart
        for k in range(3):
            h.assume(bp[k][0] != 0 if h.is_sym() else abs(bp[k][0]) > 1e-6, 'image boundary point finite')
        ctr, rad = E.circle_parameters()
        for k in range(3):
            w = bp[k][1] / bp[k][0]
            wre, wim = (FC.lift(w).re, FC.lift(w).im) if h.is_sym() else (w.real, w.imag)
            dv = np.array([wre - ctr[0], wim - ctr[1]], dtype=object if h.is_sym() else float)
            h.eq(f"image boundary point {k} lies on the reported circle", h.dot(dv, dv), rad * rad, validate=False)
        # the image boundary points are the images of the boundary points
        h.proj_eq("boundary points are mapped by the matrix", bp, D.boundary_points().proj_data @ M, nonzero=False)
        h.proj_eq("interior point is mapped by the matrix", E.interior_point().proj_data, D.interior_point().proj_data @ M, nonzero=False)


def relations(h, broadcast="elementwise"):
    """containment and intersection of bounded disks agree with |c1-c2| < r1-r2 and |c1-c2| < r1+r2"""
    with _c_to_r_model(h):
        c2 = h.cvar('bc')
        r1, r2 = h.var('ar'), h.var('br')
        # slice: the first centre at a concrete point (the tests are translation invariant; stated as a bound)
        c1 = (FC(F.const(0.5), F.const(0.25)) if h.is_sym() else complex(0.5, 0.25))
        h.assume(r1 > 0, 'radius > 0')
        h.assume(r2 > 0, 'radius > 0')
        dt = object if h.is_sym() else None
        A = cp.CP1Disk(np.array([c1], dtype=dt if h.is_sym() else complex), np.array([r1], dtype=dt if h.is_sym() else float))
        B = cp.CP1Disk(np.array([c2], dtype=dt if h.is_sym() else complex), np.array([r2], dtype=dt if h.is_sym() else float))
        con = A.contains(B, broadcast=broadcast)
        its = A.intersects(B, broadcast=broadcast)
        d = c1 - c2
        d2 = (d.re * d.re + d.im * d.im) if h.is_sym() else abs(d) ** 2
        # generic position: not tangent
        h.assume((d2 != (r1 - r2) * (r1 - r2)) if h.is_sym() else abs(d2 - (r1 - r2) ** 2) > 1e-3, 'not internally tangent')
        h.assume((d2 != (r1 + r2) * (r1 + r2)) if h.is_sym() else abs(d2 - (r1 + r2) ** 2) > 1e-3, 'not externally tangent')
        want_con = ((r1 > r2) & (d2 < (r1 - r2) * (r1 - r2))) if h.is_sym() else (r1 > r2 and d2 < (r1 - r2) ** 2)
        want_its = (d2 < (r1 + r2) * (r1 + r2))
        gc, gi = bool(np.asarray(con).flat[0]), bool(np.asarray(its).flat[0])
        h.eq("result shape", np.array(np.asarray(con).shape), np.array([1] if broadcast == "elementwise" else [1, 1]))
        h.holds("contains agrees with the set-theoretic answer", want_con if gc else (~want_con if h.is_sym() and not isinstance(want_con, (bool, np.bool_)) else (not want_con)))
        h.holds("intersects agrees with the set-theoretic answer", want_its if gi else (~want_its if h.is_sym() and not isinstance(want_its, (bool, np.bool_)) else (not want_its)))


def _side_disk(h, c, r, unbounded):
    """a disk with boundary circle |z - c| = r: the bounded side through the constructor, the side containing infinity from its four defining
    points directly (three boundary points and an interior point outside the circle), which needs no complement() / emath.sqrt"""
    if not unbounded:
        return cp.CP1Disk(np.array([c], dtype=object if h.is_sym() else complex), np.array([r], dtype=object if h.is_sym() else float))
    if h.is_sym():
        c = FC.lift(c)
        pts = [FC(c.re + r, c.im), FC(c.re - r, c.im), FC(c.re, c.im + r), FC(c.re + 2 * r, c.im)]
        data = np.empty((1, 4, 2), dtype=object)
    else:
        pts = [c + r, c - r, c + 1j * r, c + 2 * r]
        data = np.empty((1, 4, 2), dtype=complex)
    for i, z in enumerate(pts):
        data[0, i, 0] = 1
        data[0, i, 1] = z
    return cp.CP1Disk(data)


def relations_any(h, broadcast="elementwise", ua=False, ub=True):
    """containment / intersection when one or both disks contain infinity (A = inside or outside of circle 1, B likewise for circle 2)"""
    with _c_to_r_model(h):
        c2 = h.cvar('bc')
        r1, r2 = h.var('ar'), h.var('br')
        c1 = (FC(F.const(0.5), F.const(0.25)) if h.is_sym() else complex(0.5, 0.25))
        h.assume(r1 > 0, 'radius > 0')
        h.assume(r2 > 0, 'radius > 0')
        A = _side_disk(h, c1, r1, ua)
        B = _side_disk(h, c2, r2, ub)
        h.eq("A contains infinity as constructed", np.array(bool(np.asarray(A.center_inside()).flat[0])), np.array(not ua))
        h.eq("B contains infinity as constructed", np.array(bool(np.asarray(B.center_inside()).flat[0])), np.array(not ub))
        d = c1 - c2
        d2 = (d.re * d.re + d.im * d.im) if h.is_sym() else abs(d) ** 2
        h.assume((d2 != (r1 - r2) * (r1 - r2)) if h.is_sym() else abs(d2 - (r1 - r2) ** 2) > 1e-3, 'not internally tangent')
        h.assume((d2 != (r1 + r2) * (r1 + r2)) if h.is_sym() else abs(d2 - (r1 + r2) ** 2) > 1e-3, 'not externally tangent')
        con = A.contains(B, broadcast=broadcast)
        its = A.intersects(B, broadcast=broadcast)
        inner = d2 < (r1 - r2) * (r1 - r2)
        D1_in_D2 = (r2 > r1) & inner
        D2_in_D1 = (r1 > r2) & inner
        disjoint = d2 > (r1 + r2) * (r1 + r2)
        T = (r1 > 0) if h.is_sym() else True          # constant true / false of the right kind
        Fa = ~T if h.is_sym() else False
        if not ua and not ub:
            want_con, want_its = D2_in_D1, ~disjoint if h.is_sym() else (not disjoint)
        elif not ua and ub:
            # a bounded disk never contains a neighbourhood of infinity; it misses the outside of circle 2 only if it lies inside circle 2
            want_con, want_its = Fa, (~D1_in_D2 if h.is_sym() else (not D1_in_D2))
        elif ua and not ub:
            want_con, want_its = disjoint, (~D2_in_D1 if h.is_sym() else (not D2_in_D1))
        else:
            want_con, want_its = D1_in_D2, T
        gc, gi = bool(np.asarray(con).flat[0]), bool(np.asarray(its).flat[0])
        neg = (lambda x: ~x) if h.is_sym() else (lambda x: not x)
        h.eq("result shape", np.array(np.asarray(con).shape), np.array([1] if broadcast == "elementwise" else [1, 1]))
        h.holds("contains agrees with the set-theoretic answer", want_con if gc else neg(want_con))
        h.holds("intersects agrees with the set-theoretic answer", want_its if gi else neg(want_its))


def relations_mixed(h, broadcast="pairwise"):
    """arrays mixing a bounded disk and a disk containing infinity (both sides of circle 1 against both sides of circle 2): every entry of the
    pairwise / elementwise result agrees with the set-theoretic answer"""
    with _c_to_r_model(h):
        c2 = h.cvar('bc')
        r1, r2 = h.var('ar'), h.var('br')
        c1 = (FC(F.const(0.5), F.const(0.25)) if h.is_sym() else complex(0.5, 0.25))
        h.assume(r1 > 0, 'radius > 0')
        h.assume(r2 > 0, 'radius > 0')
        order_b = (True, False)       # opposite order to A: the pattern of bounded / unbounded entries is not symmetric
        A = cp.CP1Disk(np.concatenate([_side_disk(h, c1, r1, u).proj_data for u in (False, True)]))
        B = cp.CP1Disk(np.concatenate([_side_disk(h, c2, r2, u).proj_data for u in order_b]))
        d = c1 - c2
        d2 = (d.re * d.re + d.im * d.im) if h.is_sym() else abs(d) ** 2
        h.assume((d2 != (r1 - r2) * (r1 - r2)) if h.is_sym() else abs(d2 - (r1 - r2) ** 2) > 1e-3, 'not internally tangent')
        h.assume((d2 != (r1 + r2) * (r1 + r2)) if h.is_sym() else abs(d2 - (r1 + r2) ** 2) > 1e-3, 'not externally tangent')
        con = np.asarray(A.contains(B, broadcast=broadcast))
        its = np.asarray(A.intersects(B, broadcast=broadcast))
        inner = d2 < (r1 - r2) * (r1 - r2)
        D1_in_D2 = (r2 > r1) & inner
        D2_in_D1 = (r1 > r2) & inner
        disjoint = d2 > (r1 + r2) * (r1 + r2)
        T = (r1 > 0) if h.is_sym() else True
        neg = (lambda x: ~x) if h.is_sym() else (lambda x: not x)
        want = {(False, False): (D2_in_D1, neg(disjoint)), (False, True): (neg(T), neg(D1_in_D2)),
                (True, False): (disjoint, neg(D2_in_D1)), (True, True): (D1_in_D2, T)}
        if broadcast == "pairwise":
            h.eq("result shape", np.array(con.shape), np.array([2, 2]))
            cells = [((i, j), (ua, ub)) for i, ua in enumerate((False, True)) for j, ub in enumerate(order_b)]
        else:
            h.eq("result shape", np.array(con.shape), np.array([2]))
            cells = [((i,), (ua, ub)) for i, (ua, ub) in enumerate(zip((False, True), order_b))]
        for idx, key in cells:
            wc, wi = want[key]
            nm = f"{'unbounded' if key[0] else 'bounded'} x {'unbounded' if key[1] else 'bounded'}"
            h.holds(f"contains[{nm}] agrees with the set-theoretic answer", wc if bool(con[idx]) else neg(wc))
            h.holds(f"intersects[{nm}] agrees with the set-theoretic answer", wi if bool(its[idx]) else neg(wi))
