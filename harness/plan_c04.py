import itertools
import numpy as np
from .registry import inst


def _shapes(maxrank, sizes):
    out = [()]
    for r in range(1, maxrank + 1):
        out += list(itertools.product(sizes, repeat=r))
    return out


def _broadcastable(a, b):
    try:
        np.broadcast_shapes(a, b)
        return True
    except ValueError:
        return False


def plan(tier):
    q = tier == 'quick'
    I = []
    shapes = _shapes(2, (1, 2)) if q else _shapes(2, (1, 2, 3)) + [(2, 1, 2), (1, 2, 1), (2, 2, 2)]
    units = [(1, 2), (2, 2), (3, 2), (2, 3)] if not q else [(1, 2), (2, 2), (3, 2)]   # (2,1) is not a mode of this row-vector library
    n = 0
    for (u1, u2) in units:
        for s1 in shapes:
            for s2 in shapes:
                size = int(np.prod(s1 + s2 + (1,)))
                if size > (8 if q else 18):
                    continue
                for bc in ("elementwise", "pairwise", "pairwise_reversed"):
                    if bc == "elementwise" and not _broadcastable(s1, s2):
                        continue
                    if (u1, u2) == (2, 1) and bc != "elementwise":
                        continue
                    if q and (n % 3) and len(s1) + len(s2) > 2:
                        n += 1
                        continue
                    n += 1
                    I.append(inst(f"matrix_product[u=({u1},{u2}),{s1}x{s2},{bc}]", 'harness.c04', 'matrix_product',
                                  dict(shape1=s1, shape2=s2, u1=u1, u2=u2, broadcast=bc, d=2), opts=dict(max_vars=96), weight=1))
    oshapes = [(), (1,), (2,), (2, 1), (1, 2)] if q else [(), (1,), (2,), (3,), (2, 1), (1, 2), (2, 2), (1, 1, 2)]
    tshapes = [(), (1,), (2,)] if q else [(), (1,), (2,), (2, 1), (1, 2)]
    for cls in ['hyp.Point', 'proj.Point', 'proj.Polygon', 'proj.Transformation']:
        for os_ in oshapes:
            for ts in tshapes:
                for bc in ("elementwise", "pairwise", "pairwise_reversed"):
                    if bc == "elementwise" and not _broadcastable(os_, ts):
                        continue
                    if int(np.prod(os_ + ts + (1,))) > (4 if q else 8):
                        continue
                    if cls in ('proj.Polygon', 'proj.Transformation') and q and len(os_) + len(ts) > 2:
                        continue
                    I.append(inst(f"apply[{cls},{os_}x{ts},{bc}]", 'harness.c04', 'apply', dict(cls=cls, oshape=os_, tshape=ts, broadcast=bc, d=3 if cls != 'proj.Polygon' else 3),
                                  opts=dict(max_vars=120), weight=2))
    for op in ['coords:poincare', 'coords:halfspace', 'coords:hyperboloid', 'coords:klein', 'distance', 'tangent', 'polygon', 'sl2:so21', 'sl2:irrep4', 'segment:']:
        for shp in ([(1,), (2,)] if q else [(1,), (2,), (3,), (2, 1), (1, 2), (2, 2)]):
            heavy = op.split(':')[0] in ('segment', 'tangent', 'polygon')
            if heavy and int(np.prod(shp)) > 2:
                continue
            I.append(inst(f"pointwise[{op},{shp}]", 'harness.c04', 'pointwise', dict(op=op, shape=shp, n=2), weight=20 if heavy else 3, timeout_s=900, opts=dict(max_vars=64)))
    I.append(inst("pointwise[segment:poincare,(2,)]", 'harness.c04', 'pointwise', dict(op='segment:poincare', shape=(2,), n=2), weight=80, timeout_s=1200))
    if not q:
        I.append(inst("pointwise[segment:halfspace,(2,)]", 'harness.c04', 'pointwise', dict(op='segment:halfspace', shape=(2,), n=2), weight=80, timeout_s=1800))
    for cls in ('hyp.Segment', 'proj.Polygon'):
        for shp in ([(2,), (2, 2), (1, 2)] if q else [(2,), (3,), (2, 2), (1, 2), (2, 1), (2, 1, 2)]):
            I.append(inst(f"restructure[{cls},{shp}]", 'harness.c04', 'restructure', dict(cls=cls, shape=shp), weight=8, timeout_s=900, opts=dict(max_vars=120)))
    return dict(
        instances=I,
        explanation=("bounded symbolic verification over enumerated shape configurations: every entry of a composite input is a DISTINCT symbol, so any "
                     "index / axis / broadcast mix-up changes the normal form; the vectorised operation (utils.matrix_product with unit ranks 1,2,3; "
                     "Transformation.apply elementwise / pairwise / pairwise_reversed on points, polygons (aux rank 3) and transformations; coords in all models, "
                     "distance, unit_tangent_towards, Segment / Polygon construction, circle centre/radius, sl2_to_so21 / sl2_irrep on stacks; flatten, reshape, "
                     "len, iteration, stacking) is run once on the composite and once per unit and compared entrywise (exact normal form / z3), together with "
                     "the result's composite shape and type.  Inside each shape configuration the verdict is over all real entries"),
        bounds=dict(composite_shapes="rank 0..2 with sizes in {1,2} (quick); sizes {1,2,3} and three rank-3 shapes (thorough); total units capped at 8 / 18",
                    unit_ranks="1, 2 (and 3 for matrix_product) ; aux rank 3 via Polygon", ambient_dimension="2-3"),
        outside=["_fixpoint_data (eigen stub is unit-only)", "circle angle pairs (see C14 / C18)", "rank > 3 composites"],
        assumptions=["interior points for hyperbolic point operations; distinct endpoints for segments"],
    )
