from .registry import inst

MODELS = ["projective", "hyperboloid", "klein", "poincare", "halfspace"]


def plan(tier):
    q = tier == 'quick'
    I = []
    for n in ([1, 2] if q else [1, 2, 3]):
        for m in MODELS:
            I.append(inst(f"coords[n={n},{m}]", 'harness.c12', 'coords', dict(n=n, model=m), weight=n))
        I.append(inst(f"distance[n={n}]", 'harness.c12', 'distance', dict(n=n), weight=3 * n, timeout_s=600))
        I.append(inst(f"tangent-direction[n={n}]", 'harness.c12', 'tangent', dict(n=n), weight=20 * n, timeout_s=900))
        I.append(inst(f"transform[n={n}]", 'harness.c12', 'transform', dict(n=n), weight=5 * n, timeout_s=900))
    for m in ("poincare", "halfspace", "hyperboloid", "klein"):
        I.append(inst(f"coords[n=2,{m},composite(2,)]", 'harness.c12', 'coords', dict(n=2, model=m, shape=(2,)), weight=4))
    for n in ([1, 2] if q else [1, 2, 3]):
        I.append(inst(f"segment[n={n}]", 'harness.c12', 'segment', dict(n=n, circle=False), weight=40 * n, timeout_s=1200))
    for n in ([1, 2] if q else [1, 2, 3]):
        for which in (1, 0):
            I.append(inst(f"segment-with-ideal-endpoint[n={n},ideal endpoint {'second' if which else 'first'}]", 'harness.c12', 'segment_ideal_end', dict(n=n, which=which),
                          weight=30 * n, timeout_s=1200))
    if not q:
        I.append(inst("segment+circle[n=2]", 'harness.c12', 'segment', dict(n=2, circle=True), weight=400, timeout_s=1500))
    I.append(inst("tangent-direction[n=1,composite(2,)]", 'harness.c12', 'tangent_composite', dict(n=1), weight=30, timeout_s=900))
    if not q:
        I.append(inst("tangent-direction[n=2,composite(2,)]", 'harness.c12', 'tangent_composite', dict(n=2), weight=200, timeout_s=1500))
    I.append(inst("origin_to[n=1]", 'harness.c12', 'origin_to', dict(n=1), weight=5, timeout_s=600))
    if not q:
        I.append(inst("origin_to[n=2]", 'harness.c12', 'origin_to', dict(n=2), weight=400, timeout_s=1500))
    return dict(
        instances=I,
        explanation=("bounded symbolic verification of scale-freeness: every input point's homogeneous vector is multiplied, unit by unit, by its own "
                     "symbolic factor lambda_i != 0 (either sign: the engine forks on the sign where the code looks at it) and the real code is executed on "
                     "both; model coordinates, cosh of distances, segment ideal endpoints (unordered pair), Poincare circle centre/radius, the unit tangent "
                     "direction (against an independent reference: the component of q orthogonal to p), images under a symbolic transformation, polygon "
                     "edges and origin_to targets are compared exactly (normal form / z3)"),
        bounds=dict(dimensions="n<=2 (quick) / n<=3 (thorough)", composite="shape (2,) with independent factors per unit", origin_to="n=1 (n=2 in thorough)"),
        outside=["the number-packaging half of C12 (Python scalar vs NumPy scalar vs list dispatch through np.can_cast): finite dispatch on concrete types, no symbolic variable to offer -- outside this technique; the defect behind it was found through C02 and is repaired",
                 "circle angle pairs (see C14)", "point_along (see C13)"],
        assumptions=["interior points |x|^2<1 given by Klein coordinates x, representative (1, x) times lambda", "lambda_i != 0"],
    )
