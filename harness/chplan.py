"""helpers to build CrossHair instances (engine E2): configuration slices = automaton tables"""
import itertools
from .registry import inst


def tables(S, L):
    return [list(t) for t in itertools.product(range(-1, S), repeat=S * L)]


def ch_instances(name, body, sig, pre, call, configs, per_batch=6, timeout=60, weight=5):
    """configs: list of dicts of constants substituted into `call` / `pre`"""
    out = []
    for i in range(0, len(configs), per_batch):
        batch = configs[i:i + per_batch]
        out.append(inst(f"{name}[slice {i // per_batch}]", 'harness.ch', 'run',
                        dict(body=body, batch=batch, sig=[list(s) for s in sig], pre=list(pre), call=call, per_condition_timeout=timeout),
                        kind='crosshair', timeout_s=timeout * (len(batch) + 1) + 180, weight=weight))
    return out


def sample(configs, k, seed=0):
    """deterministic spread sample of k configurations (always includes the first and last)"""
    if len(configs) <= k:
        return configs
    step = len(configs) / k
    idx = sorted({int(i * step) for i in range(k)} | {0, len(configs) - 1})
    return [configs[i] for i in idx]


CH_TRUSTED = ["CrossHair 0.0.110 path exploration ('Confirmed over all paths' is claimed only when CrossHair reports exhaustion) with z3 5.1.0",
              "the set-based reference models in harness/chbodies.py"]
