"""C08 -- Coxeter group representations satisfy the relations and preserve the form."""
import math
import numpy as np
from geometry_tools import coxeter, utils
from symnp import transc, npmodels
from symnp.core import F


def _matrix(labels, r):
    M = [[1] * r for _ in range(r)]
    it = iter(labels)
    for i in range(r):
        for j in range(i + 1, r):
            M[i][j] = M[j][i] = next(it)
    return M


def _group(labels, r, route, style):
    M = _matrix(labels, r)
    if route == 'matrix':
        return coxeter.CoxeterGroup(matrix=M, generator_style=style), M
    names = [coxeter.CoxeterGroup._default_generator_name(i, style) for i in range(r)]
    diagram = [(names[i], names[j], M[i][j]) for i in range(r) for j in range(i + 1, r)]
    if r == 3 and style == 'alpha' and route == 'triangle':
        return coxeter.TriangleGroup((M[0][1], M[1][2], M[2][0])), M
    return coxeter.CoxeterGroup(diagram=diagram), M


class _SymPi:
    """while active, utils.pi() returns the exact symbolic pi (so cos(pi/m) is an algebraic number, not a float)"""
    def __init__(self, h):
        self.h = h

    def __enter__(self):
        if self.h.is_sym():
            import geometry_tools.utils.core as core
            self.saved = (core.pi, utils.pi)
            f = lambda **kw: transc.Ang.pi_multiple(1)
            core.pi = f
            utils.pi = f
        return self

    def __exit__(self, *a):
        if self.h.is_sym():
            import geometry_tools.utils.core as core
            core.pi, utils.pi = self.saved


def _kw(h):
    return dict(dtype=np.dtype('O')) if h.is_sym() else {}


def _ref_form(h, M):
    """independent reference: B_ij = -cos(pi/m_ij), -1 for infinite labels, 1 on the diagonal"""
    r = len(M)
    B = np.empty((r, r), dtype=object if h.is_sym() else float)
    for i in range(r):
        for j in range(r):
            m = M[i][j]
            if i == j:
                B[i, j] = 1
            elif m <= 0:
                B[i, j] = -1
            else:
                B[i, j] = -transc.cos_pi_rational(transc.Fraction(1, m)) if h.is_sym() else -math.cos(math.pi / m)
    return B


def _I(h, r):
    I = np.zeros((r, r), dtype=object if h.is_sym() else float)
    for i in range(r):
        I[i, i] = 1
    return I


def _pow(P, k, I):
    out = I
    for _ in range(k):
        out = out @ P
    return out


def _is_identity(h, P, I):
    if h.is_sym():
        c = None
        for a, b in zip(P.flat, I.flat):
            e = (a == b)
            c = e if c is None else (c & e)
        return c
    return bool(np.allclose(P.astype(float), I.astype(float), atol=1e-7))


def _primes(m):
    return [p for p in range(2, m + 1) if m % p == 0 and all(p % q for q in range(2, p))]


def relations(h, labels=(3, 3, 4), r=3, route='matrix', style='alpha', rep='geometric'):
    with _SymPi(h):
        G, M = _group(labels, r, route, style)
        gens = G.ordered_gens
        h.eq("coxeter matrix", np.array(G.coxeter_matrix), np.array(M))
        Bref = _ref_form(h, M)
        B = G.bilinear_form(**_kw(h))
        h.eq("bilinear form = -cos(pi/m), -1 at infinity", B, Bref)
        if rep == 'geometric':
            R = G.geometric_representation(**_kw(h))
        elif rep == 'canonical':
            R = G.canonical_representation(**_kw(h))
        elif rep == 'cartan':
            R = G.cartan_representation(2 * Bref, **_kw(h))
        elif rep == 'cartan-renamed':
            R = G.cartan_representation(2 * Bref, rename_generators=True, generator_style='alphanum', **_kw(h))
            gens = [f"s{i}" for i in range(r)]
        else:
            raise ValueError(rep)
        I = _I(h, r)
        S = []
        for g in gens:
            S.append(R.element([g], parse_simple=True) if len(g) > 1 else R[g])
        for i in range(r):
            h.eq(f"involution[{gens[i]}]", S[i] @ S[i], I)
            if rep != 'canonical':
                h.eq(f"form preserved[{gens[i]}]", S[i].T @ Bref @ S[i], Bref)
                # reflection s_i = I - e_i e_i^T (2B): row i
                want = I.copy()
                want[i] = want[i] - 2 * Bref[i]
                h.eq(f"reflection formula[{gens[i]}]", S[i], want)
        for i in range(r):
            for j in range(i + 1, r):
                m = M[i][j]
                P = S[i] @ S[j]
                if m > 0:
                    h.eq(f"order divides {m}[{gens[i]}{gens[j]}]", _pow(P, m, I), I, validate=(m <= 4))
                    if rep in ('canonical', 'geometric'):
                        for p in _primes(m):
                            c = _is_identity(h, _pow(P, m // p, I), I)
                            h.holds(f"order exactly {m}[{gens[i]}{gens[j]}]: power {m // p} is not the identity", ~c if h.is_sym() and not isinstance(c, (bool, np.bool_)) else (not c))
                else:
                    # infinite order: (s_i s_j)^k != I for small k (unipotent)
                    for k in (1, 2, 3):
                        c = _is_identity(h, _pow(P, k, I), I)
                        h.holds(f"infinite label[{gens[i]}{gens[j]}]: power {k} is not the identity", ~c if h.is_sym() and not isinstance(c, (bool, np.bool_)) else (not c))
        if rep == 'canonical':
            Rg = G.geometric_representation(**_kw(h))
            for i, g in enumerate(gens):
                h.eq(f"canonical = inverse transpose of geometric[{g}]", S[i], np.linalg.inv(Rg[g]).T)
                h.eq(f"dual pairing[{g}]", S[i].T @ Rg[g], I)


def routes_agree(h, labels=(3, 0, 4), r=3):
    """the diagram route (incl. TriangleGroup) and the matrix route give the same representation; 0 and negative labels mean infinity"""
    with _SymPi(h):
        G1, M = _group(labels, r, 'matrix', 'alpha')
        G2, _ = _group(labels, r, 'diagram', 'alpha')
        neg = tuple(-1 if x == 0 else x for x in labels)
        G3, _ = _group(neg, r, 'matrix', 'alpha')
        reps = [G.geometric_representation(**_kw(h)) for G in (G1, G2, G3)]
        for g in G1.ordered_gens:
            h.eq(f"diagram route = matrix route[{g}]", reps[1][g], reps[0][g])
            h.eq(f"negative label = zero label[{g}]", reps[2][g], reps[0][g])
        if r == 3:
            T = coxeter.TriangleGroup((labels[0], labels[2], labels[1]))      # (ab, bc, ca)
            Rt = T.geometric_representation(**_kw(h))
            for g in G1.ordered_gens:
                h.eq(f"TriangleGroup[{g}]", Rt[g], reps[0][g])
        if r == 3:
            # a diagram whose edge list mentions the generators in a non-sorted order: relations are tied to the NAMES
            m01, m02, m12 = labels
            G5 = coxeter.CoxeterGroup(diagram=[('b', 'a', m01), ('b', 'c', m12), ('c', 'a', m02)])
            R5 = G5.geometric_representation(**_kw(h))
            I3 = _I(h, 3)
            for (x, y, m) in (('a', 'b', m01), ('a', 'c', m02), ('b', 'c', m12)):
                h.eq(f"unsorted diagram: label stored for ({x},{y})", np.array(G5.generators[x][y]), np.array(m))
                ix, iy = G5.generator_index[x], G5.generator_index[y]
                h.eq(f"unsorted diagram: coxeter_matrix entry for ({x},{y})", np.array(G5.coxeter_matrix[ix][iy]), np.array(m))
                if m > 0:
                    h.eq(f"unsorted diagram: ({x}{y})^{m} = 1", _pow(R5[x] @ R5[y], m, I3), I3, validate=False)
                    for pr in _primes(m):
                        c = _is_identity(h, _pow(R5[x] @ R5[y], m // pr, I3), I3)
                        h.holds(f"unsorted diagram: ({x}{y}) has order exactly {m}: power {m // pr} is not the identity",
                                ~c if h.is_sym() and not isinstance(c, (bool, np.bool_)) else (not c))
        G4, _ = _group(labels, r, 'matrix', 'alphanum')
        R4 = G4.geometric_representation(**_kw(h))
        for i, g in enumerate(G1.ordered_gens):
            h.eq(f"alphanum naming[s{i}]", R4.element([f"s{i}"]), reps[0][g])


def nonsymmetric_cartan(h, m=4):
    """a genuinely non-symmetric Cartan matrix C_ij = -a, C_ji = -4cos^2(pi/m)/a still gives (s_i s_j)^m = 1"""
    with _SymPi(h):
        G = coxeter.CoxeterGroup(matrix=[[1, m], [m, 1]])
        a = h.var('a')
        h.assume(a != 0, 'a != 0')
        c = transc.cos_pi_rational(transc.Fraction(1, m)) if h.is_sym() else math.cos(math.pi / m)
        C = np.empty((2, 2), dtype=object if h.is_sym() else float)
        C[0, 0] = C[1, 1] = 2
        C[0, 1] = -a
        C[1, 0] = -4 * c * c / a
        R = G.cartan_representation(C.copy(), **_kw(h))
        I = _I(h, 2)
        Sa, Sb = R['a'], R['b']
        h.eq("involution a", Sa @ Sa, I)
        h.eq("involution b", Sb @ Sb, I)
        h.eq(f"(ab)^{m} = 1", _pow(Sa @ Sb, m, I), I)
        want = I.copy()
        want[0] = want[0] - C[0]
        h.eq("reflection formula from the rows of C", Sa, want)


def tits_vinberg(h, labels=(0, 3, 0), r=3):
    """free parameters on the infinite labels: generators stay involutions and the finite relations hold"""
    with _SymPi(h):
        G, M = _group(tuple(-1 if x == 0 else x for x in labels), r, 'matrix', 'alpha')
        params = {}
        k = 0
        for i in range(r):
            for j in range(i + 1, r):
                if M[i][j] <= 0:
                    p = h.var(f"p{k}")
                    q = h.var(f"q{k}")
                    h.assume(p != 0, 'parameter != 0')
                    h.assume(q != 0, 'parameter != 0')
                    params[(i, j)] = p
                    params[(j, i)] = q
                    k += 1
        if h.is_sym():
            C = G.cartan_matrix(params, dtype=np.dtype('O'))
            R = G.cartan_representation(C, dtype=np.dtype('O'))
        else:
            R = G.tits_vinberg_rep(params)
            C = G.cartan_matrix(params)
        I = _I(h, r)
        gens = G.ordered_gens
        for (i, j), v in params.items():
            h.eq(f"parameter placed at {i}{j}", C[i, j], v)
        for i in range(r):
            h.eq(f"involution[{gens[i]}]", R[gens[i]] @ R[gens[i]], I)
        for i in range(r):
            for j in range(i + 1, r):
                if M[i][j] > 0:
                    h.eq(f"order divides {M[i][j]}[{gens[i]}{gens[j]}]", _pow(R[gens[i]] @ R[gens[j]], M[i][j], I), I)
