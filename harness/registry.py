"""which harness instances make up each property check, per tier, with bounds / assumptions for the evidence."""
import importlib

MODULES = {}


def get(prop, tier):
    mod = importlib.import_module(f"harness.plan_{prop.lower()}")
    return mod.plan(tier)


def inst(name, module, func, params=None, opts=None, timeout_s=300, kind='symnp', weight=1):
    return dict(name=name, kind=kind, module=module, func=func, params=params or {}, opts=opts or {}, timeout_s=timeout_s, weight=weight)
