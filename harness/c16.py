"""C16 -- affine charts, affine maps and subspace operations in projective space are exact."""
import itertools
import numpy as np
from geometry_tools import projective
from geometry_tools.base import GeometryError
from symnp import npmodels


def _det(M):
    return npmodels.det_sym(np.asarray(M, dtype=object)) if np.asarray(M).dtype == object else np.linalg.det(M)


def _zero(h, x):
    return x == 0


def chart_roundtrip(h, dim=2, chart=0, complex_=False, column_vectors=False, shape=()):
    mk = h.carr if complex_ else h.arr
    a = mk('a', shape + (dim,))
    lam = h.cvar('lam') if complex_ else h.var('lam')
    h.assume(lam != 0, 'rescaling factor != 0')
    src = a.swapaxes(-1, -2) if (column_vectors and a.ndim >= 2) else a
    cv = column_vectors and a.ndim >= 2
    p = projective.projective_coords(src.copy(), chart_index=chart, column_vectors=cv)
    pr = p.swapaxes(-1, -2) if cv else p
    h.eq("chart slot is 1", pr[..., chart], 1 + 0 * pr[..., chart])
    h.eq("other slots are the affine coordinates", np.delete(pr, chart, axis=-1), a)
    back = projective.affine_coords(lam * p, chart_index=chart, column_vectors=cv)
    h.eq("affine(lam * projective(a)) = a", back, src)
    # object API
    pt = projective.Point(a.copy(), chart_index=chart)
    h.eq("Point(chart).affine_coords", pt.affine_coords(chart_index=chart), a)
    h.holds("in_affine_chart", pt.in_affine_chart(chart))
    pt2 = projective.Point(lam * pt.proj_data)
    h.eq("Point(lam * p).affine_coords", pt2.affine_coords(chart_index=chart), a)


def outside_chart(h, dim=1, chart=0, complex_=True):
    """a point is reported outside a chart exactly when its chart coordinate is zero"""
    mk = h.carr if complex_ else h.arr
    x = mk('x', (dim + 1,))
    h.assume(np.array([(x[i] != 0) for i in range(dim + 1)]).any() if not h.is_sym() else _any([x[i] != 0 for i in range(dim + 1)]), 'not the zero vector')
    iszero = (x[chart] == 0)
    try:
        aff = projective.affine_coords(x.copy(), chart_index=chart)
        raised = False
    except GeometryError:
        raised = True
    if raised:
        h.holds("GeometryError only if the chart coordinate is zero", iszero)
    else:
        h.holds("returns only if the chart coordinate is non-zero", ~iszero if h.is_sym() and not isinstance(iszero, (bool, np.bool_)) else (not iszero))
        # and then the result is the quotient
        others = [i for i in range(dim + 1) if i != chart]
        h.eq("quotient", aff, np.array([x[i] / x[chart] for i in others]))
    pt = projective.Point(x.copy())
    inchart = pt.in_affine_chart(chart)
    if h.is_sym():
        inchart = bool(inchart) if not isinstance(inchart, (bool, np.bool_)) else inchart
    h.holds("in_affine_chart agrees", (not raised) == bool(inchart))


def _any(conds):
    out = conds[0]
    for c in conds[1:]:
        out = out | c
    return out


def affine_maps(h, dim=2, chart=0, column_vectors=True):
    L = h.arr('L', (dim, dim))
    t = h.arr('t', (dim,))
    a = h.arr('a', (dim,))
    h.assume(_det(L) != 0, 'invertible linear map')
    T = projective.affine_linear_map(L.copy(), chart_index=chart, column_vectors=column_vectors)
    p = projective.Point(a.copy(), chart_index=chart)
    img = (T @ p)
    want = (L @ a) if column_vectors else (a @ L)
    h.eq("affine_linear_map acts as L in the chart", img.affine_coords(chart_index=chart), want)
    h.eq("fixes the chart origin", (T @ projective.Point(0 * a, chart_index=chart)).affine_coords(chart_index=chart), 0 * a)
    S = projective.affine_translation(t.copy(), chart_index=chart)
    h.eq("affine_translation acts as +t in the chart", (S @ p).affine_coords(chart_index=chart), a + t)
    h.eq("translation after linear map", (S @ (T @ p)).affine_coords(chart_index=chart), want + t)


def intersect(h, n=3, k1=2, k2=2, broadcast="elementwise", composite=False):
    """intersection of two transverse subspaces lies in both and has dimension k1 + k2 - n"""
    h.stub('kernel', mode='general')
    shp = (1,) if composite else ()
    A = h.arr('A', shp + (k1, n))
    B = h.arr('B', shp + (k2, n))
    m = k1 + k2 - n
    # transversality: the stacked spanning set has full rank n
    for idx in np.ndindex(*shp):
        stacked = np.concatenate([A[idx], B[idx]], axis=0)
        minors = [_det(stacked[list(rows)]) for rows in itertools.combinations(range(k1 + k2), n)]
        h.assume(minors[0] != 0, 'transverse (leading minor of the stacked spanning sets non-zero)')
        for nm, S, k in (("A", A[idx], k1), ("B", B[idx], k2)):
            km = [_det(S[:, list(cols)]) for cols in itertools.combinations(range(n), k)]
            if h.is_sym():
                h.assume(_any([x != 0 for x in km]), f'spanning set {nm} linearly independent')
            else:
                h.assume(max(abs(x) for x in km) > 1e-9, f'spanning set {nm} linearly independent')
    S1 = projective.Subspace(A.copy())
    S2 = projective.Subspace(B.copy())
    X = S1.intersect(S2, broadcast=broadcast)
    R = X.proj_data
    want_shape = (shp + shp if broadcast == "pairwise" else shp) + (m, n)
    h.eq("shape", np.array(R.shape), np.array(want_shape))
    h.holds("type", isinstance(X, projective.Subspace))
    Rf = R.reshape((-1, m, n))
    Af = A.reshape((-1, k1, n))
    Bf = B.reshape((-1, k2, n))
    for u in range(Rf.shape[0]):
        for r in range(m):
            row = Rf[u][r]
            for tag, S, k in (("self", Af[0], k1), ("other", Bf[0], k2)):
                M = np.concatenate([S, row[None, :]], axis=0)          # (k+1) x n : rank must stay k
                mins = [_det(M[:, list(cols)]) for cols in itertools.combinations(range(n), k + 1)] if k + 1 <= n else []
                if mins:
                    h.eq(f"row {r} lies in {tag}", np.array(mins, dtype=object if h.is_sym() else float), 0, validate=False)
        # independent rows: some m x m minor non-zero
        mins = [_det(Rf[u][:, list(cols)]) for cols in itertools.combinations(range(n), m)]
        if h.is_sym():
            h.holds("rows independent (expected dimension)", _any([x != 0 for x in mins]))
        else:
            h.holds("rows independent (expected dimension)", max(abs(x) for x in mins) > 1e-9)


def eigen(h, d=2, which='eigenvector'):
    """eigenvector(lambda) / eigenvector(None) / diagonalize() of T = C diag(lambda) C^-1 with the nondeterministic eigen stub
    (arbitrary eigenvalue order, arbitrary eigenvector scale of norm in [1/2, 2])"""
    from .c15 import _EigStub, _with_eig
    C = h.arr('C', (d, d))
    h.assume(_det(C) != 0, 'independent eigenvectors')
    lam = [h.var(f"l{i}") for i in range(d)]
    for i in range(d):
        h.assume(lam[i] != 0, 'invertible transformation')
        h.assume(lam[i] * lam[i] < 10000, 'bounded eigenvalues')
        for j in range(i + 1, d):
            df = lam[i] - lam[j]
            h.assume(df * df > 0.01, 'eigenvalues separated (np.isclose tolerance)')
    D = np.zeros((d, d), dtype=object if h.is_sym() else float)
    for i in range(d):
        D[i, i] = lam[i]
    Mc = C @ D @ np.linalg.inv(C)                       # acts on column vectors
    T = projective.Transformation(Mc.copy(), column_vectors=True)
    evecs = [C[:, k] for k in range(d)]
    with _with_eig(h, _EigStub(h, lam, evecs)):
        if which == 'eigenvector':
            for k in range(d):
                v = T.eigenvector(eigenvalue=lam[k])
                h.proj_eq(f"eigenvector({k}) is the eigenvector of lambda_{k}", v.proj_data, evecs[k], nonzero=False)
                h.eq(f"T @ v = lambda_{k} v", (T @ v).proj_data, lam[k] * v.proj_data, validate=False)
                h.holds(f"eigenvector({k}) is non-zero", _any([x != 0 for x in v.proj_data]) if h.is_sym() else bool(np.abs(v.proj_data).max() > 1e-9))
        elif which == 'any':
            v = T.eigenvector()
            img = (T @ v).proj_data
            cr = [img[i] * v.proj_data[j] - img[j] * v.proj_data[i] for i in range(d) for j in range(i + 1, d)]
            h.eq("T @ v is a multiple of v", np.array(cr, dtype=object if h.is_sym() else float), 0, validate=False)
            h.holds("non-zero", _any([x != 0 for x in v.proj_data]) if h.is_sym() else bool(np.abs(v.proj_data).max() > 1e-9))
        elif which == 'missing':
            mu = h.var('mu')
            for i in range(d):
                df = mu - lam[i]
                h.assume(df * df > 0.01, 'not an eigenvalue')
            h.raises("a value that is not an eigenvalue is rejected", (GeometryError,), lambda: T.eigenvector(eigenvalue=mu))
        else:
            M, Minv = T.diagonalize(return_inv=True)
            G = (Minv @ T @ M).proj_data
            off = [G[i, j] for i in range(d) for j in range(d) if i != j]
            h.eq("M^-1 T M is diagonal", np.array(off, dtype=object if h.is_sym() else float), 0, validate=False)
            h.eq("M.inv() is the inverse", (Minv @ M).proj_data, np.diag([1] * d), validate=False)
            M2 = T.diagonalize()
            h.eq("diagonalize() without inverse returns the same frame", M2.proj_data, M.proj_data, validate=False)


def eigen_complex(h):
    """a real 3x3 transformation with spectrum a+ib, a-ib, a: eigenvector(a) must be the eigenvector of the REAL eigenvalue"""
    from .c15 import _EigStub, _with_eig
    from symnp.core import F, FC
    d = 3
    C = h.arr('C', (d, d))
    h.assume(_det(C) != 0, 'independent generalized eigenvectors')
    a, b = h.var('a'), h.var('b')
    h.assume(a != 0, 'invertible')
    h.assume(b * b > 0.01, 'genuinely complex pair')
    h.assume(a * a < 10000, 'bounded')
    D = np.zeros((d, d), dtype=object if h.is_sym() else float)
    D[0, 0], D[0, 1], D[1, 0], D[1, 1], D[2, 2] = a, -b, b, a, a
    Mc = C @ D @ np.linalg.inv(C)
    T = projective.Transformation(Mc.copy(), column_vectors=True)
    if h.is_sym():
        mk = lambda re, im: FC(re, im)
        e0 = np.array([mk(C[i, 0], -C[i, 1]) for i in range(d)], dtype=object)
        e1 = np.array([mk(C[i, 0], C[i, 1]) for i in range(d)], dtype=object)
        e2 = np.array([mk(C[i, 2], 0 * C[i, 2]) for i in range(d)], dtype=object)
        evals = [mk(a, b), mk(a, -b), mk(a, 0 * a)]
    else:
        e0, e1, e2 = C[:, 0] - 1j * C[:, 1], C[:, 0] + 1j * C[:, 1], C[:, 2].astype(complex)
        evals = [complex(a, b), complex(a, -b), complex(a, 0)]
    with _with_eig(h, _EigStub(h, evals, [e0, e1, e2], cplx=True, real_cols=(2,))):
        v = T.eigenvector(eigenvalue=a)
    vd = v.proj_data
    h.proj_eq("eigenvector(a) is the eigenvector of the real eigenvalue a", np.real(vd) if not h.is_sym() else npmodels.model_real(vd), C[:, 2], nonzero=False)
    img = (T @ v).proj_data
    h.eq("T @ v = a v", img, a * vd, validate=False)


def eigen_composite(h, d=2, request='none'):
    """eigenvector() of a composite transformation (two independent units): each returned point is an eigenvector of ITS unit"""
    from .c15 import _EigStubBatch, _with_eig
    units, mats, Cs, lams = [], [], [], []
    mu = h.var('mu')
    for e in range(2):
        C = h.arr(f"C{e}", (d, d))
        h.assume(_det(C) != 0, 'independent eigenvectors')
        lam = [mu if (k == 0 and request == 'shared') else h.var(f"l{e}{k}") for k in range(d)]
        for i in range(d):
            h.assume(lam[i] != 0, 'invertible')
            h.assume(lam[i] * lam[i] < 10000, 'bounded')
            for j in range(i + 1, d):
                df = lam[i] - lam[j]
                h.assume(df * df > 0.01, 'eigenvalues separated')
        D = np.zeros((d, d), dtype=object if h.is_sym() else float)
        for i in range(d):
            D[i, i] = lam[i]
        mats.append(C @ D @ np.linalg.inv(C))
        units.append((lam, [C[:, k] for k in range(d)]))
        Cs.append(C)
        lams.append(lam)
    T = projective.Transformation(np.array(mats, dtype=object if h.is_sym() else float), column_vectors=True)
    with _with_eig(h, _EigStubBatch(h, units)):
        v = T.eigenvector(eigenvalue=(mu if request == 'shared' else None))
    V = v.proj_data
    h.eq("shape", np.array(V.shape), np.array([2, d]))
    for e in range(2):
        Te = projective.Transformation(np.array(mats[e], dtype=object if h.is_sym() else float), column_vectors=True)
        img = (Te @ projective.Point(V[e])).proj_data
        cr = [img[i] * V[e][j] - img[j] * V[e][i] for i in range(d) for j in range(i + 1, d)]
        h.eq(f"unit {e}: T_e v_e is a multiple of v_e", np.array(cr, dtype=object if h.is_sym() else float), 0, validate=False)
        h.holds(f"unit {e}: non-zero", _any([x != 0 for x in V[e]]) if h.is_sym() else bool(np.abs(V[e]).max() > 1e-9))
        if request == 'shared':
            h.eq(f"unit {e}: eigenvalue is the requested one", img, mu * V[e], validate=False)
