from .registry import inst

DERIVED = ['copy', 'conjugate', 'dual', 'compose_irrep3', 'compose_block', 'tensor_product', 'symmetric_square', 'gln_adjoint',
           'sln_adjoint', 'subgroup', 'astype_object', 'projective', 'hyperbolic']


def plan(tier):
    I = []
    q = tier == 'quick'
    # all words over {a,b,A,B}: n=2 up to length 4 (quick) / 5 (thorough), sliced by length and first letter
    I.append(inst("words[n=2,len<=3]", 'harness.c05', 'word_hom', dict(n=2, maxlen=3), weight=12, timeout_s=600))
    for f in "abAB":
        I.append(inst(f"words[n=2,len=4,first={f}]", 'harness.c05', 'word_hom', dict(n=2, maxlen=4, lo=4, first=f), weight=30, timeout_s=900))
    if not q:
        for f in "abAB":
            I.append(inst(f"words[n=2,len=5,first={f}]", 'harness.c05', 'word_hom', dict(n=2, maxlen=5, lo=5, first=f), weight=100, timeout_s=1500))
        I.append(inst("words[n=3,len<=2]", 'harness.c05', 'word_hom', dict(n=3, maxlen=2), weight=100, timeout_s=1500))
        for f in "abAB":
            I.append(inst(f"words[n=3,len=3,first={f}]", 'harness.c05', 'word_hom', dict(n=3, maxlen=3, lo=3, first=f), weight=200, timeout_s=1500))
    I.append(inst("words[n=1,len<=4]", 'harness.c05', 'word_hom', dict(n=1, maxlen=4), weight=5, timeout_s=600))
    I.append(inst("words[n=2,order=ba,reassign]", 'harness.c05', 'word_hom', dict(n=2, maxlen=2, order='ba', reassign=True), weight=5))
    I.append(inst("words[n=2,complex,len<=2]", 'harness.c05', 'word_hom', dict(n=2, maxlen=2, complex_=True), weight=80, timeout_s=900))
    I.append(inst("multichar-names", 'harness.c05', 'multichar_names', dict(n=2)))
    for w in DERIVED:
        I.append(inst(f"derived[{w},n=2]", 'harness.c05', 'derived', dict(which=w, n=2, maxlen=2), weight=8, timeout_s=600))
    if not q:
        for w in ['conjugate', 'dual', 'tensor_product', 'symmetric_square', 'subgroup', 'projective']:
            I.append(inst(f"derived[{w},n=3]", 'harness.c05', 'derived', dict(which=w, n=3, maxlen=1), weight=60, timeout_s=1800))
        for w in ['conjugate', 'dual', 'symmetric_square', 'compose_irrep3']:
            I.append(inst(f"derived[{w},n=2,len<=3]", 'harness.c05', 'derived', dict(which=w, n=2, maxlen=3), weight=60, timeout_s=1800))
    I.append(inst("fox[n=2,len<=3]", 'harness.c05', 'fox', dict(n=2, maxlen=3), weight=18, timeout_s=600))
    I.append(inst("fox[n=2,len<=2,generators assigned b then a]", 'harness.c05', 'fox', dict(n=2, maxlen=2, order='ba'), weight=8, timeout_s=600))
    if not q:
        I.append(inst("fox[n=2,len<=4]", 'harness.c05', 'fox', dict(n=2, maxlen=4), weight=100, timeout_s=1500))
    I.append(inst("cocycle[n=2]", 'harness.c05', 'cocycle', dict(n=2)))
    if not q:
        I.append(inst("cocycle[n=3]", 'harness.c05', 'cocycle', dict(n=3), weight=20, timeout_s=900))
    return dict(
        instances=I,
        explanation=("bounded symbolic verification: representation.Representation (word evaluation, derived representations, Fox "
                     "differential) executed with generator matrices whose entries are independent symbols (inverses by exact adjugate); "
                     "words are concrete dictionary keys and are enumerated exhaustively up to the length bound, each goal is an identity "
                     "of rational functions in the matrix entries decided exactly (normal form / z3) -- i.e. for ALL invertible generator "
                     "matrices of the stated size; derived representations are compared word by word with an independent reference function of the original image"),
        bounds=dict(generators=2, alphabet="a,b,A,B", word_length="<=4 at n=2 (quick); <=5 at n=2, <=3 at n=3 (thorough)", matrix_size="n in {1,2} quick, {1,2,3} thorough",
                    complex="n=2, words <=2", derived="words <=2 (n=2); thorough adds n=3 words<=1 and n=2 words<=3", fox="words <=3 (quick) / <=4 (thorough)"),
        outside=["more than 2 generators", "random long words", "astype to float dtypes (concretises)", "n>=4"],
        assumptions=["generator matrices invertible (det != 0)", "exact real / complex arithmetic"],
    )
