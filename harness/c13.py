"""C13 -- constructed isometries, tangent vectors and regular polygons hit their targets."""
import math
import numpy as np
from geometry_tools import hyperbolic, utils
from symnp import transc, npmodels
from symnp.core import F
from .c08 import _SymPi


def _interior(h, name, n):
    x = h.arr(name, (n,))
    h.assume(h.dot(x, x) < 1, 'interior point')
    return x


def _J(n):
    return np.diag([-1] + [1] * n)


def _anynz(h, d):
    if h.is_sym():
        out = (d[0] != 0)
        for x in d[1:]:
            out = out | (x != 0)
        return out
    return np.abs(d).max() > 1e-3


def _dist_t(h, name, signed=True):
    """a symbolic distance t = ln E (E > 0; E < 1 means t < 0)"""
    E = h.var(name + "_E")
    h.assume(E > 0, 'E = exp(t) > 0')
    if h.is_sym():
        return transc.LogReal(E), E
    return math.log(E), E


def _cosh(h, d):
    return d.cosh() if h.is_sym() else np.cosh(d)


def origin_to(h, n=1, force=True):
    h.stub('kernel', mode='flag')
    x = _interior(h, 'x', n)
    p = hyperbolic.Point(x.copy(), model="klein")
    iso = p.origin_to(force_oriented=force)
    img = iso @ hyperbolic.Point.get_origin(n)
    h.proj_eq("origin_to @ origin ~ p", img.proj_data, np.concatenate([[1 + 0 * x[0]], x]))
    back = iso.inv() @ hyperbolic.Point(x.copy(), model="klein")
    h.proj_eq("inverse sends p to the origin", back.proj_data, np.array([1] + [0] * n) + 0 * np.concatenate([[x[0]], x]))


def tangent_origin_to(h, n=2, force=True):
    """tv.origin_to() sends the base tangent vector to a positive multiple of tv"""
    h.stub('kernel', mode='flag')
    x = _interior(h, 'x', n)
    w = h.arr('w', (n + 1,))
    p = hyperbolic.Point(x.copy(), model="klein")
    tv = hyperbolic.TangentVector(p, w.copy())
    J = _J(n)
    V = tv.vector.copy()
    h.assume(V @ J @ V > 0, 'non-zero tangent vector')
    iso = tv.origin_to(force_oriented=force)
    base = hyperbolic.TangentVector.get_base_tangent(n)
    img = iso @ base
    h.proj_eq("base point goes to the base point", img.proj_data[0], tv.proj_data[0])
    a, b = img.aux_data[1], V
    cross = [a[i] * b[j] - a[j] * b[i] for i in range(n + 1) for j in range(i + 1, n + 1)]
    h.eq("base tangent goes to a multiple of the vector", np.array(cross, dtype=object if h.is_sym() else float), 0, validate=False)
    # positive multiple, relative to the representatives of the base point: compare through the sign of <image, V> after aligning base points
    sP = img.proj_data[0] @ J @ tv.proj_data[0]
    h.holds("... a positive multiple (same sense)", (a @ J @ b) * sP < 0)


def point_along(h, n=1):
    """tv.point_along(t) = cosh(t) p_hat + sinh(t) v_hat (projectively): distance |t| from the base point, on the geodesic, on the correct side"""
    h.stub('kernel', mode='flag')
    x, y = _interior(h, 'x', n), _interior(h, 'y', n)
    h.assume(_anynz(h, x - y), 'distinct points')
    t, E = _dist_t(h, 't')
    p = hyperbolic.Point(x.copy(), model="klein")
    q = hyperbolic.Point(y.copy(), model="klein")
    tv = p.unit_tangent_towards(q)
    r = tv.point_along(t)
    J = _J(n)
    pu = np.concatenate([[1 + 0 * x[0]], x])
    qu = np.concatenate([[1 + 0 * y[0]], y])
    w = qu - ((pu @ J @ qu) / (pu @ J @ pu)) * pu          # direction from p towards q, tangent at p
    ph = pu / np.sqrt(-(pu @ J @ pu))
    wh = w / np.sqrt(w @ J @ w)
    ch, sh = (E + 1 / E) / 2, (E - 1 / E) / 2
    h.proj_eq("point_along(t) ~ cosh(t) p + sinh(t) v", r.proj_data, ch * ph + sh * wh, nonzero=False)
    d = hyperbolic.Point(x.copy(), model="klein").distance(r)
    h.eq("distance from the base point is |t|", _cosh(h, d), ch, validate=False)


def reach_target(h, n=1):
    """following the unit tangent towards q for distance d(p, q) arrives at q"""
    h.stub('kernel', mode='flag')
    x, y = _interior(h, 'x', n), _interior(h, 'y', n)
    h.assume(_anynz(h, x - y), 'distinct points')
    p = hyperbolic.Point(x.copy(), model="klein")
    q = hyperbolic.Point(y.copy(), model="klein")
    d = hyperbolic.Point(x.copy(), model="klein").distance(hyperbolic.Point(y.copy(), model="klein"))
    r = p.unit_tangent_towards(q).point_along(d)
    h.proj_eq("arrives at q", r.proj_data, np.concatenate([[1 + 0 * y[0]], y]))


def angle(h, n=2):
    """angle between tangent vectors at p towards q and r: hyperbolic law of cosines (stated on the cosine), value in [0, pi]"""
    x, y, z = _interior(h, 'x', n), _interior(h, 'y', n), _interior(h, 'z', n)
    h.assume(_anynz(h, x - y), 'distinct points')
    h.assume(_anynz(h, x - z), 'distinct points')
    P = lambda v: hyperbolic.Point(v.copy(), model="klein")
    tq = P(x).unit_tangent_towards(P(y))
    tr = P(x).unit_tangent_towards(P(z))
    ang = tq.angle(tr)
    a, b, c = P(x).distance(P(y)), P(x).distance(P(z)), P(y).distance(P(z))
    if h.is_sym():
        ca, cb, cc = a.cosh(), b.cosh(), c.cosh()
        sa, sb = a.sinh(), b.sinh()
        cosang, sinang = ang.cos(), ang.sin()
    else:
        ca, cb, cc, sa, sb = np.cosh(a), np.cosh(b), np.cosh(c), np.sinh(a), np.sinh(b)
        cosang, sinang = np.cos(ang), np.sin(ang)
    h.eq("law of cosines: cos(angle) sinh a sinh b = cosh a cosh b - cosh c", cosang * sa * sb, ca * cb - cc, validate=False)
    h.holds("angle lies in [0, pi]", sinang >= 0)


def angle_general(h, n=2):
    """angle between two arbitrary (non-unit, different length) tangent vectors at p: cos = <v1,v2> / (|v1| |v2|) of the projected vectors"""
    x = _interior(h, 'x', n)
    w1, w2 = h.arr('w', (n + 1,)), h.arr('u', (n + 1,))
    p = hyperbolic.Point(x.copy(), model="klein")
    t1 = hyperbolic.TangentVector(p, w1.copy())
    t2 = hyperbolic.TangentVector(hyperbolic.Point(x.copy(), model="klein"), w2.copy())
    J = _J(n)
    v1, v2 = t1.vector.copy(), t2.vector.copy()
    n1, n2 = v1 @ J @ v1, v2 @ J @ v2
    h.assume(n1 > 0, 'non-zero tangent vector')
    h.assume(n2 > 0, 'non-zero tangent vector')
    ang = t1.angle(t2)
    c = ang.cos() if h.is_sym() else np.cos(ang)
    s_ = ang.sin() if h.is_sym() else np.sin(ang)
    # c * |v1| |v2| = <v1, v2> ; avoid square roots on the reference side: compare squares and signs
    g = v1 @ J @ v2
    h.eq("cos(angle)^2 |v1|^2 |v2|^2 = <v1,v2>^2", c * c * n1 * n2, g * g, validate=False)
    h.holds("cos(angle) has the sign of <v1,v2>", ((c >= 0) & (g >= 0)) | ((c <= 0) & (g <= 0)) if h.is_sym() else bool(c * g >= -1e-12))
    h.holds("angle lies in [0, pi]", s_ >= 0)
    ang2 = t2.angle(t1)
    h.eq("symmetric", ang2.cos() if h.is_sym() else np.cos(ang2), c, validate=False)


def regular_polygon(h, sides=4, by='angle', chart=0, dimension=2):
    """regular n-gon with symbolic interior angle a = 2*alpha: n vertices equidistant from the origin, equal sides, interior angle a"""
    h.stub('kernel', mode='flag')
    n = sides
    with _SymPi(h):
        if h.is_sym():
            transc.set_pi_base(2 * n if n % 2 else n)   # pi/n, 2pi/n and pi/2 - pi/n are all multiples of pi/(2n) (of pi/n for even n)
        alpha = transc.t_angle(h, 'alpha')           # half the interior angle
        if h.is_sym():
            ca, sa = alpha.cos(), alpha.sin()
            sg = transc.sin_pi_rational(transc.Fraction(1, n))
            pre = [ca > sg, sa > 0, ca > 0]
        else:
            ca, sa, sg = math.cos(alpha), math.sin(alpha), math.sin(math.pi / n)
            pre = [ca > sg + 1e-3, sa > 1e-3, ca > 0]
        for c in pre:
            h.assume(c, 'admissible interior angle: 0 < a < (n-2)pi/n')
        a = 2 * alpha
        kw = {}
        if by == 'angle':
            poly = hyperbolic.Polygon.regular_polygon(n, angle=a, dimension=dimension, **kw)
        else:
            rad = hyperbolic.regular_polygon_radius(n, a)
            poly = hyperbolic.Polygon.regular_polygon(n, radius=rad, dimension=dimension, **kw)
        V = poly.proj_data
        h.eq("number of vertices", np.array(V.shape), np.array([n, dimension + 1]))
        J = _J(dimension)
        # distances through Minkowski products of the (unnormalised) vertices: cosh d(u,v) = -<u,v>/sqrt(<u,u><v,v>)
        nr = [V[k] @ J @ V[k] for k in range(n)]
        for k in range(1, n):
            h.eq(f"vertex {k} as far from the origin as vertex 0", V[k][0] * V[k][0] * nr[0], V[0][0] * V[0][0] * nr[k], validate=False)
        side = lambda i, j: (V[i] @ J @ V[j]) * (V[i] @ J @ V[j]) * nr[0] * nr[1]
        for k in range(1, n):
            h.eq(f"side {k} = side 0", (V[k] @ J @ V[(k + 1) % n]) ** 2 * nr[0] * nr[1], (V[0] @ J @ V[1]) ** 2 * nr[k] * nr[(k + 1) % n], validate=False)
        cr01 = [V[0][i] * V[1][j] - V[0][j] * V[1][i] for i in range(dimension + 1) for j in range(i + 1, dimension + 1)]
        h.holds("consecutive vertices are distinct points", _anynz(h, np.array(cr01, dtype=object if h.is_sym() else float)))
        # interior angle at vertex 0 between the edges to vertices 1 and n-1
        P = lambda k: hyperbolic.Point(V[k].copy())
        t1 = P(0).unit_tangent_towards(P(1))
        t2 = P(0).unit_tangent_towards(P(n - 1))
        ang = t1.angle(t2)
        cos_a = (ca * ca - sa * sa)
        h.eq("interior angle = a (cosine)", ang.cos() if h.is_sym() else np.cos(ang), cos_a, validate=False)
        # radius and angle formulas are mutual inverses
        rad = hyperbolic.regular_polygon_radius(n, a)
        back = hyperbolic.polygon_interior_angle(n, rad)
        h.eq("polygon_interior_angle(regular_polygon_radius(a)) = a (cosine)", back.cos() if h.is_sym() else np.cos(back), cos_a, validate=False)
        h.holds("... and sine (same angle, not its supplement)", (back.sin() if h.is_sym() else np.sin(back)) > 0)
