"""C18 -- the indefinite linear-algebra helpers meet their stated contracts."""
import itertools
import math
import numpy as np
from geometry_tools import utils
from geometry_tools.utils import numerical
from symnp import npmodels, transc
from symnp.core import F


def _det(M):
    return npmodels.det_sym(M) if M.dtype == object else np.linalg.det(M)


def _form(p, q, neg_first=True):
    d = ([-1] * p + [1] * q) if neg_first else ([1] * p + [-1] * q)
    return np.diag(d)


def _minors_vanish(h, name, rows, extra):
    """`extra` lies in the span of `rows` (k x n, independent): all (k+1)-minors of the stacked matrix vanish"""
    M = np.concatenate([rows, extra[None, :]], axis=0)
    k, n = rows.shape
    mins = [_det(M[:, list(c)]) for c in itertools.combinations(range(n), k + 1)]
    if mins:
        h.eq(name, np.array(mins, dtype=object if h.is_sym() else float), 0, validate=False)


def orthogonalize(h, p=1, q=2, k=3, congruent=False):
    """indefinite_orthogonalize(form, rows): mutually orthogonal rows of square-norm +-1 spanning the same flag"""
    n = p + q
    B = _form(p, q)
    if congruent:
        C = h.arr('C', (n, n))
        h.assume(_det(C) != 0, 'invertible congruence')
        B = C.T @ B @ C
    R = h.arr('r', (k, n))
    # general position: leading Gram determinants non-zero (every partial flag is non-degenerate)
    for j in range(1, k + 1):
        G = R[:j] @ B @ R[:j].T
        h.assume(_det(G) != 0, 'non-degenerate partial flag')
    O = utils.indefinite_orthogonalize(B, R.copy())
    G = O @ B @ O.T
    for i in range(k):
        for j in range(i + 1, k):
            h.eq(f"rows {i},{j} orthogonal", G[i, j], 0)
        h.eq(f"row {i} has square norm +-1", G[i, i] * G[i, i], 1)
    for j in range(k):
        _minors_vanish(h, f"row {j} in the span of the first {j + 1} input rows", R[:j + 1], O[j])
    h.eq("shape", np.array(O.shape), np.array(R.shape))


def find_isometry(h, p=1, q=1, k=1, force=False):
    h.stub('kernel', mode='flag')
    n = p + q
    B = _form(p, q)
    R = h.arr('r', (k, n))
    for j in range(1, k + 1):
        G = R[:j] @ B @ R[:j].T
        h.assume(_det(G) != 0, 'non-degenerate partial flag')
    M = utils.find_isometry(B, R.copy(), force_oriented=force)
    h.eq("shape", np.array(M.shape), np.array([n, n]))
    h.eq("preserves the form: M B M^T = +-B pattern", (M @ B @ M.T) * (M @ B @ M.T), B * B)
    G = M @ B @ M.T
    for i in range(n):
        for j in range(i + 1, n):
            h.eq(f"rows {i},{j} orthogonal", G[i, j], 0, validate=False)
    for j in range(k):
        _minors_vanish(h, f"row {j} in the span of the first {j + 1} given rows", R[:j + 1], M[j])
    if force:
        h.holds("positive determinant on request", _det(M) > 0)


def _rotation(h, n, tag):
    """a symbolic element of SO(n) as a product of plane rotations (rational parametrisation)"""
    U = np.zeros((n, n), dtype=object if h.is_sym() else float)
    for i in range(n):
        U[i, i] = 1
    k = 0
    for i in range(n):
        for j in range(i + 1, n):
            t = h.var(f"{tag}{k}")
            k += 1
            c, s = (1 - t * t) / (1 + t * t), 2 * t / (1 + t * t)
            Rm = np.zeros((n, n), dtype=U.dtype)
            for a in range(n):
                Rm[a, a] = 1
            Rm[i, i], Rm[i, j], Rm[j, i], Rm[j, j] = c, -s, s, c
            U = U @ Rm
    return U


def diagonalize_form(h, signs=(-1, 1, 1), order="signed", reverse=False, eig_order=0):
    """diagonalize_form with the spectral eigh stub: B := U diag(w) U^T for symbolic orthogonal U and eigenvalues w of the given
    signs; the stub returns the eigenvalues ascending, eigenvectors as columns with arbitrary signs"""
    n = len(signs)
    U = _rotation(h, n, 'u')
    w = [h.var(f"w{i}") for i in range(n)]
    for i, sg in enumerate(signs):
        h.assume(w[i] > 0 if sg > 0 else w[i] < 0, 'eigenvalue sign')
    # distinct eigenvalues, in a fixed relative order (slice of the input space; all orders are enumerated by eig_order)
    perm = list(itertools.permutations(range(n)))[eig_order]
    for a, b in zip(perm, perm[1:]):
        h.assume(w[a] < w[b], 'eigenvalue order (slice)')
    D = np.zeros((n, n), dtype=object if h.is_sym() else float)
    for i in range(n):
        D[i, i] = w[i]
    B = U @ D @ U.T
    eps = [h.var(f"e{i}") for i in range(n)]
    for e in eps:
        h.assume((e == 1) | (e == -1) if h.is_sym() else (abs(abs(e) - 1) < 1e-12), 'eigenvector sign')

    def eigh_stub(mat, *a, **k):
        vals = np.array([w[i] for i in perm], dtype=object if h.is_sym() else float)
        vecs = np.stack([U[:, i] * eps[i] for i in perm], axis=-1)
        return vals, vecs
    npmodels.LINALG_OVERRIDES['eigh'] = eigh_stub
    if not h.is_sym():
        saved = np.linalg.eigh
        np.linalg.eigh = eigh_stub
    try:
        W, Winv = utils.diagonalize_form(B.copy(), order_eigenvalues=order, reverse=reverse, with_inverse=True)
        W2 = utils.diagonalize_form(B.copy(), order_eigenvalues=order, reverse=reverse, with_inverse=False)
    finally:
        npmodels.LINALG_OVERRIDES.pop('eigh', None)
        if not h.is_sym():
            np.linalg.eigh = saved
    G = W.T @ B @ W
    nneg, npos = sum(1 for s in signs if s < 0), sum(1 for s in signs if s > 0)
    if order == "signed":
        want = [-1] * nneg + [1] * npos
    else:
        # minkowski: the rarer sign first (negative first on ties? the code puts negative first unless positives are rarer)
        want = ([-1] * nneg + [1] * npos) if nneg <= npos else ([1] * npos + [-1] * nneg)
    if reverse:
        want = want[::-1]
    h.eq("W^T B W is the requested +-1 diagonal", G, np.diag(want))
    I = np.diag([1] * n)
    h.eq("Winv @ W = I", Winv @ W, I)
    h.eq("W @ Winv = I", W @ Winv, I, validate=False)
    h.eq("with_inverse=False returns the same W", W2, W)


def kernel(h, shape=(2, 3), rank=None):
    """svd_kernel with the SVD stub: M := U diag(s) V^T from symbolic orthogonal U, V and singular values; zero singular values exact"""
    k, n = shape
    r = min(k, n) if rank is None else rank
    U = _rotation(h, k, 'u')
    V = _rotation(h, n, 'v')
    s = [h.var(f"s{i}") if i < r else (h.const(0)) for i in range(min(k, n))]
    for i in range(r):
        h.assume(s[i] > 1e-3, 'singular values bounded away from zero (well above the 1e-8 rank tolerance)')
    S = np.zeros((k, n), dtype=object if h.is_sym() else float)
    for i in range(min(k, n)):
        S[i, i] = s[i]
    M = U @ S @ V.T

    def svd_stub(mat, *a, **kw):
        return U, np.array(s, dtype=object if h.is_sym() else float), V.T
    npmodels.LINALG_OVERRIDES['svd'] = svd_stub
    saved = None
    if not h.is_sym():
        saved = np.linalg.svd
        np.linalg.svd = svd_stub
    try:
        K = numerical.svd_kernel(M.copy())
    finally:
        npmodels.LINALG_OVERRIDES.pop('svd', None)
        if saved is not None:
            np.linalg.svd = saved
    kd = n - r
    h.eq("kernel dimension", np.array(K.shape), np.array([n, kd]))
    if tuple(K.shape) == (n, kd) and kd > 0:
        h.eq("M @ K = 0", M @ K, 0 * (M @ K))
        h.eq("orthonormal", K.T @ K, np.diag([1] * kd))


def kernel_trivial(h, n=2):
    """a full-rank square matrix has the trivial kernel: an (n, 0) basis (real LAPACK; symbolic run uses the spectral stub)"""
    kernel(h, shape=(n, n), rank=n)


def sphere_through(h, k=1):
    """sphere through k+2 points in R^(k+1)"""
    d = k + 1
    P = h.arr('p', (k + 2, d))
    T = (P[1:] - P[0]).T
    h.assume(_det(T) != 0, 'general position')
    c, r = utils.sphere_through(P.copy())
    for i in range(k + 2):
        dv = P[i] - c
        h.eq(f"point {i} at distance r from the centre", h.dot(dv, dv), r * r)
    if k == 1:
        c2, r2 = utils.circle_through(P[0].copy(), P[1].copy(), P[2].copy())
        h.eq("circle_through agrees (centre)", c2, c)
        h.eq("circle_through agrees (radius)", r2, r)


def _angle(h, name, wind=0):
    """a symbolic angle as the direction of a non-zero vector; returns (arctan2 value, (x, y)).
    wind=+1: the same direction read as p + 2pi for p < 0 (value in (pi, 2pi)); wind=-1: p - 2pi for p > 0 (value in (-2pi, -pi))"""
    x, y = h.var(name + "x"), h.var(name + "y")
    h.assume((x != 0) | (y != 0) if h.is_sym() else (abs(x) + abs(y) > 1e-3), 'non-zero direction')
    th = np.arctan2(np.array(y, dtype=object) if h.is_sym() else y, np.array(x, dtype=object) if h.is_sym() else x)
    if wind == 1:
        h.assume(y < 0, 'principal value negative (angle given in (pi, 2pi))')
        th = transc.CircAng(th.x, th.y, 'positive') if h.is_sym() else th + 2 * math.pi
    elif wind == -1:
        h.assume(y > 0, 'principal value positive (angle given in (-2pi, -pi))')
        th = transc.CircAng(th.x, th.y, 'negative') if h.is_sym() else th - 2 * math.pi
    return th, (x, y)


def _dir(h, th):
    if h.is_sym():
        return th.x, th.y
    return math.cos(th), math.sin(th)


def _same_dir(h, name, th, v):
    x, y = _dir(h, th)
    h.eq(f"{name}: parallel", x * v[1] - y * v[0], 0, validate=False)
    h.holds(f"{name}: same sense", x * v[0] + y * v[1] > 0)


def arcs(h, which='short_arc', batch=1, wind=(0, 0)):
    """the arc-ordering helpers return the same two angles, ordered so that the counter-clockwise arc is the short one /
    the right-to-left one / the one containing the reference"""
    rows = []
    vecs = []
    for b in range(batch):
        a0, v0 = _angle(h, f"a{b}", wind[0])
        a1, v1 = _angle(h, f"b{b}", wind[1])
        cr = v0[0] * v1[1] - v0[1] * v1[0]
        if which == 'short_arc':
            h.assume(cr != 0 if h.is_sym() else abs(cr) > 1e-3, 'not antipodal / equal (the short arc is then unique)')
        if which == 'arc_include':
            dot = v0[0] * v1[0] + v0[1] * v1[1]
            h.assume(((cr != 0) | (dot < 0)) if h.is_sym() else (abs(cr) > 1e-3 or dot < 0), 'the two angles are distinct directions')
        rows.append([a0, a1])
        vecs.append((v0, v1))
    th = np.array(rows, dtype=object if h.is_sym() else float)
    if batch == 1:
        th = th[0]
    if which == 'short_arc':
        out = utils.short_arc(th.copy())
    elif which == 'right_to_left':
        out = utils.right_to_left(th.copy())
    else:
        ref, vr = _angle(h, "ref")
        out = utils.arc_include(th.copy(), np.array(ref, dtype=object) if h.is_sym() else np.array(ref))
    out = np.asarray(out, dtype=object if h.is_sym() else float).reshape((batch, 2))
    for b in range(batch):
        v0, v1 = vecs[b]
        o0, o1 = _dir(h, out[b, 0]), _dir(h, out[b, 1])
        c = o0[0] * o1[1] - o0[1] * o1[0]
        # same two directions (as a set)
        keep = (o0[0] * v0[1] - o0[1] * v0[0] == 0) & (o0[0] * v0[0] + o0[1] * v0[1] > 0) & (o1[0] * v1[1] - o1[1] * v1[0] == 0) & (o1[0] * v1[0] + o1[1] * v1[1] > 0) if h.is_sym() else \
            (abs(o0[0] * v0[1] - o0[1] * v0[0]) < 1e-9 and o0[0] * v0[0] + o0[1] * v0[1] > 0 and abs(o1[0] * v1[1] - o1[1] * v1[0]) < 1e-9 and o1[0] * v1[0] + o1[1] * v1[1] > 0)
        swap = (o0[0] * v1[1] - o0[1] * v1[0] == 0) & (o0[0] * v1[0] + o0[1] * v1[1] > 0) & (o1[0] * v0[1] - o1[1] * v0[0] == 0) & (o1[0] * v0[0] + o1[1] * v0[1] > 0) if h.is_sym() else \
            (abs(o0[0] * v1[1] - o0[1] * v1[0]) < 1e-9 and o0[0] * v1[0] + o0[1] * v1[1] > 0 and abs(o1[0] * v0[1] - o1[1] * v0[0]) < 1e-9 and o1[0] * v0[0] + o1[1] * v0[1] > 0)
        h.holds(f"pair {b}: the same two angles", (keep | swap) if h.is_sym() else (keep or swap))
        if which == 'short_arc':
            h.holds(f"pair {b}: counter-clockwise arc is the short one", c > 0)
        elif which == 'right_to_left':
            n0 = np.sqrt(o0[0] * o0[0] + o0[1] * o0[1])
            n1 = np.sqrt(o1[0] * o1[0] + o1[1] * o1[1])
            h.holds(f"pair {b}: cos of the second angle is at most cos of the first", o1[0] / n1 <= o0[0] / n0 + (0 if h.is_sym() else 1e-9))
        else:
            # reference lies on the counter-clockwise arc from o0 to o1: rotate so that o0 is the positive x-axis
            def rot(v):
                return (o0[0] * v[0] + o0[1] * v[1], o0[0] * v[1] - o0[1] * v[0])
            r1, rr = rot(o1), rot(vr)
            if h.is_sym():
                A1 = transc.CircAng(r1[0], r1[1], 'positive')
                Ar = transc.CircAng(rr[0], rr[1], 'positive')
                inside = not A1._lt(Ar)
            else:
                a1 = math.atan2(r1[1], r1[0]) % (2 * math.pi)
                ar = math.atan2(rr[1], rr[0]) % (2 * math.pi)
                inside = ar <= a1 + 1e-9
            h.holds(f"pair {b}: the reference lies on the counter-clockwise arc", inside)
