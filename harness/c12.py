"""C12 -- results are independent of homogeneous rescaling (the packaging half of C12 is outside this technique)."""
import numpy as np
from geometry_tools import hyperbolic, projective
from symnp import npmodels


def _det(M):
    return npmodels.det_sym(M) if M.dtype == object else np.linalg.det(M)


def _interior(h, name, n, shape=()):
    x = h.arr(name, shape + (n,))
    for idx in np.ndindex(*shape):
        h.assume(h.dot(x[idx], x[idx]) < 1, 'interior point')
    return x


def _scales(h, name, shape=()):
    lam = h.arr(name, shape) if shape else h.var(name)
    for l in (lam.flat if shape else [lam]):
        h.assume(l != 0, 'rescaling factor != 0')
    return lam


def _hom(x):
    """homogeneous representative (1, x)"""
    one = np.ones(x.shape[:-1] + (1,), dtype=x.dtype) if x.dtype != object else np.full(x.shape[:-1] + (1,), 1, dtype=object)
    return np.concatenate([one, x], axis=-1)


def _scaled(v, lam):
    return (v.T * np.asarray(lam).T).T


def coords(h, n=2, model="poincare", shape=()):
    x = _interior(h, 'x', n, shape)
    lam = _scales(h, 'lam', shape)
    v = _hom(x)
    a = hyperbolic.Point(v.copy()).coords(model)
    b = hyperbolic.Point(_scaled(v, lam)).coords(model)
    if model in ("projective",):
        h.proj_eq(f"coords[{model}]", b, a)
    elif model == "hyperboloid":
        # hyperboloid coordinates are a point of the two-sheeted hyperboloid: determined up to the sign of the representative
        sgn = np.sign(np.asarray(lam)) if not h.is_sym() else np.vectorize(lambda l: 1 if bool(l > 0) else -1, otypes=[object])(np.asarray(lam, dtype=object))
        h.eq(f"coords[{model}] up to sheet", b, _scaled(a, sgn))
    else:
        h.eq(f"coords[{model}]", b, a)


def distance(h, n=2):
    x, y = _interior(h, 'x', n), _interior(h, 'y', n)
    lam, mu = _scales(h, 'lam'), _scales(h, 'mu')
    d0 = hyperbolic.Point(_hom(x)).distance(hyperbolic.Point(_hom(y)))
    d1 = hyperbolic.Point(lam * _hom(x)).distance(hyperbolic.Point(mu * _hom(y)))
    E = h.expo
    h.eq("distance", E(d1), E(d0))


def _proj_same(h, a, b):
    """condition: vectors a and b are proportional (b non-zero assumed by construction)"""
    n = len(a)
    conds = []
    for i in range(n):
        for j in range(i + 1, n):
            conds.append(a[i] * b[j] == a[j] * b[i])
    if h.is_sym():
        out = conds[0]
        for c in conds[1:]:
            out = out & c
        return out
    sa = max(1.0, float(np.max(np.abs(a)))) * max(1.0, float(np.max(np.abs(b))))
    return all(abs(a[i] * b[j] - a[j] * b[i]) < 1e-7 * sa for i in range(n) for j in range(i + 1, n))


def segment(h, n=2, circle=True):
    x, y = _interior(h, 'x', n), _interior(h, 'y', n)
    if h.is_sym():
        h.assume(np.array([x[i] != y[i] for i in range(n)], dtype=object).any() if False else _any([x[i] != y[i] for i in range(n)]), 'distinct endpoints')
    else:
        h.assume(np.abs(x - y).max() > 1e-3, 'distinct endpoints')
    lam, mu = _scales(h, 'lam'), _scales(h, 'mu')
    s0 = hyperbolic.Segment(hyperbolic.Point(_hom(x)), hyperbolic.Point(_hom(y)))
    s1 = hyperbolic.Segment(hyperbolic.Point(lam * _hom(x)), hyperbolic.Point(mu * _hom(y)))
    h.proj_eq("endpoints", s1.proj_data, s0.proj_data)
    a, b = s0.aux_data, s1.aux_data
    same = _proj_same(h, b[0], a[0]) & _proj_same(h, b[1], a[1]) if h.is_sym() else (_proj_same(h, b[0], a[0]) and _proj_same(h, b[1], a[1]))
    swap = _proj_same(h, b[0], a[1]) & _proj_same(h, b[1], a[0]) if h.is_sym() else (_proj_same(h, b[0], a[1]) and _proj_same(h, b[1], a[0]))
    h.holds("ideal endpoints (as an unordered pair)", (same | swap) if h.is_sym() else (same or swap))
    for model in (("poincare",) if (n >= 2 and circle) else ()):
        c0, r0 = s0.sphere_parameters(model)
        c1, r1 = s1.sphere_parameters(model)
        h.eq(f"circle centre[{model}]", c1, c0, validate=False)
        h.eq(f"circle radius[{model}]", r1, r0, validate=False)


def _any(conds):
    out = conds[0]
    for c in conds[1:]:
        out = out | c
    return out


def tangent(h, n=2):
    """p.unit_tangent_towards(q) is the unit tangent at p pointing to q, whatever representatives are used"""
    x, y = _interior(h, 'x', n), _interior(h, 'y', n)
    if h.is_sym():
        h.assume(_any([x[i] != y[i] for i in range(n)]), 'distinct points')
    else:
        h.assume(np.abs(x - y).max() > 1e-3, 'distinct points')
    lam, mu = _scales(h, 'lam'), _scales(h, 'mu')
    pu, qu = _hom(x), _hom(y)                     # upper-sheet representatives
    J = np.diag([-1] + [1] * n)
    tv = hyperbolic.Point(lam * pu).unit_tangent_towards(hyperbolic.Point(mu * qu))
    P, V = tv.point, tv.vector
    # reference direction: component of q orthogonal to p (points from p towards q when both are on the upper sheet)
    w = qu - ((pu @ J @ qu) / (pu @ J @ pu)) * pu
    s = (1 if bool(lam > 0) else -1)              # sign of the base-point representative relative to the upper sheet
    g = s * V                                     # geometric direction: geodesic = cosh(t) p_hat + sinh(t) g
    h.proj_eq("base point", P, pu)
    h.eq("unit length", V @ J @ V, 1)
    h.eq("tangent to the hyperboloid at p", V @ J @ pu, 0)
    cross = [g[i] * w[j] - g[j] * w[i] for i in range(n + 1) for j in range(i + 1, n + 1)]
    h.eq("direction is along the geodesic through q", np.array(cross, dtype=object if h.is_sym() else float), 0, validate=False)
    h.holds("direction points towards q (not away from it)", g @ J @ w > 0)


def tangent_composite(h, n=1):
    """a composite of two (p, q) pairs with independent rescalings: each unit's tangent equals the unit result"""
    x, y = _interior(h, 'x', n, (2,)), _interior(h, 'y', n, (2,))
    for k in range(2):
        if h.is_sym():
            h.assume(_any([x[k][i] != y[k][i] for i in range(n)]), 'distinct points')
        else:
            h.assume(np.abs(x[k] - y[k]).max() > 1e-3, 'distinct points')
    lam, mu = _scales(h, 'lam', (2,)), _scales(h, 'mu', (2,))
    P = hyperbolic.Point(_scaled(_hom(x), lam))
    Q = hyperbolic.Point(_scaled(_hom(y), mu))
    tv = P.unit_tangent_towards(Q)
    J = np.diag([-1] + [1] * n)
    for k in range(2):
        pu, qu = _hom(x[k]), _hom(y[k])
        w = qu - ((pu @ J @ qu) / (pu @ J @ pu)) * pu
        s = (1 if bool(lam[k] > 0) else -1)
        g = s * tv.vector[k]
        cross = [g[i] * w[j] - g[j] * w[i] for i in range(n + 1) for j in range(i + 1, n + 1)]
        h.eq(f"unit {k}: direction along the geodesic through q", np.array(cross, dtype=object if h.is_sym() else float), 0, validate=False)
        h.holds(f"unit {k}: direction points towards q", g @ J @ w > 0)


def transform(h, n=2):
    d = n + 1
    v = h.arr('v', (3, d))
    lam = _scales(h, 'lam', (3,))
    M = h.arr('M', (d, d))
    h.assume(_det(M) != 0, 'invertible')
    T = projective.Transformation(M.copy())
    a = T @ projective.Point(v.copy())
    b = T @ projective.Point(_scaled(v, lam))
    h.proj_eq("images of points", b.proj_data, a.proj_data, nonzero=False)
    pa = T @ projective.Polygon(v.copy())
    pb = T @ projective.Polygon(_scaled(v, lam))
    h.proj_eq("polygon vertices", pb.proj_data, pa.proj_data, nonzero=False)
    h.proj_eq("polygon edges", pb.aux_data, pa.aux_data, nonzero=False)
    h.assume(np.array([v[i, 0] != 0 for i in range(3)]), 'points lie in chart 0')
    h.eq("affine coordinates", projective.Point(_scaled(v, lam)).affine_coords(chart_index=0),
         projective.Point(v.copy()).affine_coords(chart_index=0))


def origin_to(h, n=1):
    """the isometry built from a rescaled point still sends the origin to that point"""
    h.stub('kernel', mode='flag')
    x = _interior(h, 'x', n)
    lam = _scales(h, 'lam')
    iso = hyperbolic.Point(lam * _hom(x)).origin_to()
    img = iso @ hyperbolic.Point.get_origin(n)
    h.proj_eq("origin_to(lam * p) @ origin ~ p", img.proj_data, _hom(x))


def segment_ideal_end(h, n=2, which=1):
    """a segment one of whose endpoints is ideal (a ray): its ideal endpoints do not depend on the representatives (either sign) of the endpoints"""
    x = _interior(h, 'x', n)
    if n == 1:
        y = np.array([h.const(1)], dtype=object) if h.is_sym() else np.array([1.0])
    else:
        # rational parametrisation of the unit sphere (stereographic, all points but one)
        t = h.arr('t', (n - 1,))
        d = h.dot(t, t) + 1
        y = np.concatenate([2 * t / d, np.array([(h.dot(t, t) - 1) / d], dtype=t.dtype)])
    lam, mu = _scales(h, 'lam'), _scales(h, 'mu')
    ends0 = [_hom(x), _hom(y)]
    ends1 = [lam * _hom(x), mu * _hom(y)]
    if which == 0:
        ends0.reverse()
        ends1.reverse()
    mk = h.mark()
    s0 = hyperbolic.Segment(hyperbolic.Point(ends0[0]), hyperbolic.Point(ends0[1]))
    s1 = hyperbolic.Segment(hyperbolic.Point(ends1[0]), hyperbolic.Point(ends1[1]))
    h.defined("finite (no division by zero, real square root)", mk)
    h.proj_eq("endpoints", s1.proj_data, s0.proj_data)
    a, b = s0.aux_data, s1.aux_data
    if h.is_sym():
        same = _proj_same(h, b[0], a[0]) & _proj_same(h, b[1], a[1])
        swap = _proj_same(h, b[0], a[1]) & _proj_same(h, b[1], a[0])
        h.holds("ideal endpoints (as an unordered pair)", same | swap)
        nz = [_any([v != 0 for v in b[k]]) for k in range(2)]
        h.holds("ideal endpoints are non-zero vectors", nz[0] & nz[1])
        # one of them is the given ideal endpoint
        h.holds("the given ideal endpoint is one of them", _proj_same(h, b[0], _hom(y)) | _proj_same(h, b[1], _hom(y)))
    else:
        same = _proj_same(h, b[0], a[0]) and _proj_same(h, b[1], a[1])
        swap = _proj_same(h, b[0], a[1]) and _proj_same(h, b[1], a[0])
        fin = bool(np.all(np.isfinite(np.asarray(b, dtype=float))))
        h.holds("ideal endpoints (as an unordered pair)", fin and (same or swap))
        h.holds("ideal endpoints are non-zero vectors", fin and all(np.abs(np.asarray(b[k], dtype=float)).max() > 1e-9 for k in range(2)))
        h.holds("the given ideal endpoint is one of them", fin and (_proj_same(h, b[0], _hom(y)) or _proj_same(h, b[1], _hom(y))))
