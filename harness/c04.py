"""C04 -- a composite object behaves exactly like an array of its unit objects."""
import itertools
import numpy as np
from geometry_tools import hyperbolic, projective, utils, lie
from symnp import npmodels


def _det(M):
    return npmodels.det_sym(M) if M.dtype == object else np.linalg.det(M)


def _interior(h, name, shape, n):
    x = h.arr(name, shape + (n,))
    for idx in np.ndindex(*shape):
        h.assume(h.dot(x[idx], x[idx]) < 1, 'interior point')
    return x


def matrix_product(h, shape1=(2,), shape2=(), u1=1, u2=2, broadcast="elementwise", d=2):
    """utils.matrix_product against a per-unit loop, all entries distinct symbols"""
    unit1 = (d,) if u1 == 1 else (d, d) if u1 == 2 else (2, d, d)
    unit2 = (d, d) if u2 == 2 else (d,) if u2 == 1 else (2, d, d)
    A = h.arr('A', shape1 + unit1)
    B = h.arr('B', shape2 + unit2)
    P = utils.matrix_product(A, B, u1, u2, broadcast=broadcast)
    if broadcast == "elementwise":
        oshape = np.broadcast_shapes(shape1, shape2)
        idxs = [(i, i) for i in np.ndindex(*oshape)]

        def pick(idx, shp):
            # numpy broadcasting of the composite axes
            pad = len(oshape) - len(shp)
            return tuple(0 if shp[k] == 1 else idx[pad + k] for k in range(len(shp)))
        want = np.empty(oshape, dtype=object)
        for idx in np.ndindex(*oshape):
            want[idx] = A[pick(idx, shape1)] @ B[pick(idx, shape2)]
    else:
        first, second = (shape1, shape2) if broadcast == "pairwise" else (shape2, shape1)
        oshape = first + second
        want = np.empty(oshape, dtype=object)
        for i in np.ndindex(*shape1):
            for j in np.ndindex(*shape2):
                want[(i + j) if broadcast == "pairwise" else (j + i)] = A[i] @ B[j]
    unit_out = np.asarray(want.flat[0]).shape if want.size else ()
    h.eq("result shape", np.array(P.shape), np.array(tuple(oshape) + tuple(unit_out)))
    if tuple(P.shape) == tuple(oshape) + tuple(unit_out):
        for idx in np.ndindex(*oshape):
            h.eq(f"unit{idx}", P[idx], want[idx])


def apply(h, cls='hyp.Point', oshape=(2,), tshape=(2,), broadcast="pairwise", d=3):
    """Transformation.apply in the three broadcast modes: entry [i][j] = transformation j applied to unit i"""
    T = hyperbolic.Isometry if cls.startswith('hyp') else projective.Transformation
    Mm = h.arr('M', tshape + (d, d))
    if cls.endswith('Point'):
        x = h.arr('x', oshape + (d,))
        X = (hyperbolic.Point if cls.startswith('hyp') else projective.Point)(x)
    elif cls.endswith('Polygon'):
        x = h.arr('x', oshape + (3, d))
        X = projective.Polygon(x)
    elif cls.endswith('Transformation'):
        x = h.arr('x', oshape + (d, d))
        X = projective.Transformation(x)
    else:
        raise ValueError(cls)
    Tm = T(Mm)
    R = Tm.apply(X, broadcast=broadcast)
    if broadcast == "elementwise":
        out = np.broadcast_shapes(oshape, tshape)

        def pick(idx, shp):
            pad = len(out) - len(shp)
            return tuple(0 if shp[k] == 1 else idx[pad + k] for k in range(len(shp)))
        pairs = [(idx, pick(idx, oshape), pick(idx, tshape)) for idx in np.ndindex(*out)]
    elif broadcast == "pairwise":
        out = oshape + tshape
        pairs = [(i + j, i, j) for i in np.ndindex(*oshape) for j in np.ndindex(*tshape)]
    else:
        out = tshape + oshape
        pairs = [(j + i, i, j) for i in np.ndindex(*oshape) for j in np.ndindex(*tshape)]
    h.holds("type preserved", type(R) is type(X))
    h.eq("composite shape", np.array(R.shape), np.array(out))
    if tuple(R.shape) != tuple(out):
        return
    for (o, i, j) in pairs:
        unit = type(X)(X.proj_data[i])
        want = T(Mm[j]) @ unit
        h.eq(f"[{o}] = T{j} @ unit{i}", R.proj_data[o], want.proj_data)
        if want.aux_data is not None:
            h.eq(f"aux[{o}]", R.aux_data[o], want.aux_data)


def pointwise(h, op='coords:poincare', shape=(2,), n=2):
    """vectorised point operations equal the per-unit results"""
    x = _interior(h, 'x', shape, n)
    P = hyperbolic.Point(x.copy(), model="klein")
    kind, _, arg = op.partition(':')
    if kind == 'coords':
        got = P.coords(arg)
        for idx in np.ndindex(*shape):
            h.eq(f"coords{idx}", got[idx], hyperbolic.Point(x[idx].copy(), model="klein").coords(arg))
    elif kind == 'distance':
        y = _interior(h, 'y', shape, n)
        Q = hyperbolic.Point(y.copy(), model="klein")
        d = P.distance(Q)
        E = h.expo
        h.eq("shape", np.array(np.asarray(d, dtype=object).shape), np.array(shape))
        for idx in np.ndindex(*shape):
            du = hyperbolic.Point(x[idx].copy(), model="klein").distance(hyperbolic.Point(y[idx].copy(), model="klein"))
            h.eq(f"distance{idx}", E(np.asarray(d, dtype=object)[idx]), E(du), validate=False)
    elif kind == 'segment':
        y = _interior(h, 'y', shape, n)
        for idx in np.ndindex(*shape):
            h.assume(_anynz(h, x[idx] - y[idx]), 'distinct endpoints')
        Q = hyperbolic.Point(y.copy(), model="klein")
        S = hyperbolic.Segment(P, Q)
        h.eq("segment shape", np.array(S.shape), np.array(shape))
        for idx in np.ndindex(*shape):
            su = hyperbolic.Segment(hyperbolic.Point(x[idx].copy(), model="klein"), hyperbolic.Point(y[idx].copy(), model="klein"))
            h.eq(f"endpoints{idx}", S.proj_data[idx], su.proj_data)
            h.eq(f"ideal endpoints{idx}", S.aux_data[idx], su.aux_data)
        if arg:
            c, r = S.sphere_parameters(arg)
            for idx in np.ndindex(*shape):
                su = hyperbolic.Segment(hyperbolic.Point(x[idx].copy(), model="klein"), hyperbolic.Point(y[idx].copy(), model="klein"))
                cu, ru = su.sphere_parameters(arg)
                h.eq(f"circle centre{idx}", c[idx], cu, validate=False)
                h.eq(f"circle radius{idx}", r[idx], ru, validate=False)
    elif kind == 'tangent':
        y = _interior(h, 'y', shape, n)
        for idx in np.ndindex(*shape):
            h.assume(_anynz(h, x[idx] - y[idx]), 'distinct points')
        tv = P.unit_tangent_towards(hyperbolic.Point(y.copy(), model="klein"))
        for idx in np.ndindex(*shape):
            tu = hyperbolic.Point(x[idx].copy(), model="klein").unit_tangent_towards(hyperbolic.Point(y[idx].copy(), model="klein"))
            h.eq(f"tangent{idx}", tv.aux_data[idx], tu.aux_data, validate=False)
    elif kind == 'polygon':
        v = _interior(h, 'v', shape + (3,), n)
        G = hyperbolic.Polygon(hyperbolic.Point(v.copy(), model="klein").proj_data)
        h.eq("polygon shape", np.array(G.shape), np.array(shape))
        for idx in np.ndindex(*shape):
            gu = hyperbolic.Polygon(hyperbolic.Point(v[idx].copy(), model="klein").proj_data)
            h.eq(f"vertices{idx}", G.proj_data[idx], gu.proj_data)
            h.eq(f"edges{idx}", G.aux_data[idx], gu.aux_data)
    elif kind == 'sl2':
        A = h.arr('A', shape + (2, 2))
        f = {'so21': lie.sl2_to_so21, 'irrep4': (lambda M: lie.sl2_irrep(M, 4))}[arg]
        got = f(A.copy())
        for idx in np.ndindex(*shape):
            h.eq(f"{arg}{idx}", got[idx], f(A[idx].copy()))
    else:
        raise ValueError(op)


def _anynz(h, d):
    if h.is_sym():
        out = (d[0] != 0)
        for x in d[1:]:
            out = out | (x != 0)
        return out
    return np.abs(d).max() > 1e-3


def restructure(h, cls='hyp.Segment', shape=(2, 2)):
    """flatten / reshape / index / iterate / stack preserve the units and their order"""
    n = 2
    if cls == 'hyp.Segment':
        pts = _interior(h, 'x', shape + (2,), n)
        for idx in np.ndindex(*shape):
            h.assume(_anynz(h, pts[idx][0] - pts[idx][1]), 'distinct endpoints')
        X = hyperbolic.Segment(hyperbolic.Point(pts, model="klein").proj_data)
        mk = lambda i: hyperbolic.Segment(hyperbolic.Point(pts[i], model="klein").proj_data)
    else:
        v = h.arr('v', shape + (3, n + 1))
        X = projective.Polygon(v)
        mk = lambda i: projective.Polygon(v[i])
    units = [mk(i) for i in np.ndindex(*shape)]
    flat = X.flatten_to_unit()
    h.eq("flatten shape", np.array(flat.shape), np.array([len(units)]))
    for k, u in enumerate(units):
        h.eq(f"flatten[{k}]", flat.proj_data[k], u.proj_data)
        h.eq(f"flatten aux[{k}]", flat.aux_data[k], u.aux_data)
    newshape = shape[::-1] if len(shape) > 1 else (1,) + shape
    R = X.reshape(newshape)
    h.eq("reshape shape", np.array(R.shape), np.array(newshape))
    for k, idx in enumerate(np.ndindex(*newshape)):
        h.eq(f"reshape{idx}", R.proj_data[idx], units[k].proj_data)
        h.eq(f"reshape aux{idx}", R.aux_data[idx], units[k].aux_data)
    h.eq("len", len(X), shape[0])
    for k, item in enumerate(X):
        sub = [mk((k,) + j) for j in np.ndindex(*shape[1:])]
        h.eq(f"iter[{k}] shape", np.array(item.shape), np.array(shape[1:]))
        h.eq(f"iter[{k}]", item.proj_data.reshape((-1,) + item.proj_data.shape[len(shape) - 1:]),
             np.array([s.proj_data for s in sub]))
    S = type(X)([units[-1], units[0]])
    h.eq("stack shape", np.array(S.shape), np.array([2]))
    h.eq("stack[0]", S.proj_data[0], units[-1].proj_data)
    h.eq("stack[1]", S.proj_data[1], units[0].proj_data)
    h.eq("stack aux[0]", S.aux_data[0], units[-1].aux_data)
