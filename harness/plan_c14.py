from .registry import inst


def plan(tier):
    q = tier == 'quick'
    I = []
    k = 0
    for model in ('poincare', 'halfspace'):
        for degrees in (True, False):
            for as_string in (True, False):
                if q and model == 'poincare':
                    for af in ("1/3", "-2", "5/2"):
                        I.append(inst(f"geodesic-from-ideal[{model},degrees={degrees},string={as_string},a={af}]", 'harness.c14', 'geodesic_from_ideal',
                                      dict(model=model, degrees=degrees, as_string=as_string, a_fixed=af), weight=60, timeout_s=900))
                else:
                    I.append(inst(f"geodesic-from-ideal[{model},degrees={degrees},string={as_string}]", 'harness.c14', 'geodesic_from_ideal',
                                  dict(model=model, degrees=degrees, as_string=as_string), weight=300 if model == 'poincare' else 5, timeout_s=1500))
                if model == 'halfspace' or not q:
                    I.append(inst(f"segment-circle[{model},degrees={degrees},string={as_string}]", 'harness.c14', 'segment_circle',
                                  dict(model=model, degrees=degrees, as_string=as_string), weight=100 if model == 'halfspace' else 800, timeout_s=900 if q else 3000))
                k += 1
    for n in ([2, 3] if q else [2, 3, 4]):
        I.append(inst(f"segment-ideal-endpoints[n={n}]", 'harness.c14', 'segment_ideal', dict(n=n), weight=20 * n, timeout_s=900))
    for model in ('poincare', 'halfspace'):
        for n in ([2] if q else [2, 3]):
            I.append(inst(f"horosphere[{model},n={n}]", 'harness.c14', 'horosphere', dict(model=model, n=n), weight=10 * n, timeout_s=1200))
    I.append(inst("subspace-sphere[H3 geodesic,poincare]", 'harness.c14', 'subspace_sphere', dict(n=3, k=2, model='poincare'), weight=20, timeout_s=900))
    I.append(inst("subspace-sphere[H3 geodesic,halfspace]", 'harness.c14', 'subspace_sphere', dict(n=3, k=2, model='halfspace'), weight=20, timeout_s=900))
    I.append(inst("subspace-sphere[H2 geodesic,poincare]", 'harness.c14', 'subspace_sphere', dict(n=2, k=2, model='poincare'), weight=10, timeout_s=900))
    for model in ('poincare', 'halfspace'):
        I.append(inst(f"subspace-sphere[H3 plane,{model},2 fixed + 1 symbolic ideal point]", 'harness.c14', 'subspace_sphere', dict(n=3, k=3, model=model, nfixed=2), weight=5, timeout_s=900))
    I.append(inst("boundary-sphere[H3 plane,2 fixed + 1 symbolic ideal point]", 'harness.c14', 'subspace_sphere', dict(n=3, k=3, which='boundary', nfixed=2), weight=20, timeout_s=900))
    if not q:
        I.append(inst("boundary-sphere[H3 plane]", 'harness.c14', 'subspace_sphere', dict(n=3, k=3, which='boundary'), weight=300, timeout_s=1500))
    return dict(
        instances=I,
        explanation=("bounded symbolic verification: Segment / Geodesic circle_parameters in the Poincare and half-space models, Horosphere.sphere_parameters "
                     "and Subspace.sphere_parameters / boundary_sphere_parameters executed on symbolic endpoints (interior points by Klein coordinates, ideal "
                     "points by the rational parametrisation of the sphere).  Goals: ideal endpoints lightlike and collinear with the endpoints; both endpoints "
                     "at distance r from the reported centre; orthogonality to the boundary (|c|^2 = 1 + r^2 resp. centre on the boundary); the reported "
                     "angles (arctan2 values carried as plane directions) point from the centre to the two endpoints and the counter-clockwise arc between them "
                     "is the one inside the model (cross-product sign); degrees vs radians flag; model given as enum member or string alias; horosphere through "
                     "the reference point and tangent at its centre; reported spheres contain the ideal points.  Normal form / z3 QF_NRA"),
        bounds=dict(circles="H^2; quick: Poincare geodesics with one ideal endpoint at 3 concrete rational points and the other symbolic, half-space segments and geodesics fully symbolic; thorough: everything symbolic",
                    horospheres="n=2 (quick), n<=3 (thorough)", subspaces="geodesics in H^2, H^3; planes in H^3 with two concrete + one symbolic ideal point"),
        outside=["Segment.geodesic().circle_parameters with symbolic interior endpoints (the ideal endpoints then carry radicands that vanish only modulo the atom relations -- a hidden zero the engine cannot normalise; a solver model there did not replay, so the instances were removed; Geodesic.circle_parameters is covered through exact ideal endpoints instead)", "dimension 4", "straight-line limit (geodesics through the origin / vertical lines: infinite radius) excluded by precondition", "HorosphereArc angles"],
        assumptions=["distinct endpoints; finite radius; away from the half-space point at infinity"],
    )
