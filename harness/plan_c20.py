from .registry import inst


def plan(tier):
    q = tier == 'quick'
    I = [inst("spherical<->projective", 'harness.c20', 'spherical', {}, weight=2),
         inst("disk-parameters[affine metric]", 'harness.c20', 'disk_parameters', {}, weight=3),
         inst("moebius-image[affine maps z -> a z + b]", 'harness.c20', 'moebius', dict(kind='affine'), weight=10, timeout_s=900),
         inst("relations[bounded x bounded, elementwise]", 'harness.c20', 'relations', dict(broadcast="elementwise"), weight=40, timeout_s=900),
         inst("relations[bounded x bounded, pairwise]", 'harness.c20', 'relations', dict(broadcast="pairwise"), weight=40, timeout_s=900)]
    for ua, ub in ((False, True), (True, False), (True, True)):
        nm = f"{'unbounded' if ua else 'bounded'} x {'unbounded' if ub else 'bounded'}"
        for bc in ("elementwise", "pairwise"):
            I.append(inst(f"relations[{nm}, {bc}]", 'harness.c20', 'relations_any', dict(broadcast=bc, ua=ua, ub=ub), weight=40, timeout_s=900))
    for bc in ("pairwise", "elementwise"):
        I.append(inst(f"relations[mixed arrays, {bc}]", 'harness.c20', 'relations_mixed', dict(broadcast=bc), weight=60, timeout_s=900))
    if not q:
        I.append(inst("moebius-image[z -> 1/(z+t)]", 'harness.c20', 'moebius', dict(kind='inversion'), weight=400, timeout_s=1500))
        I.append(inst("moebius-image[general 2x2]", 'harness.c20', 'moebius', dict(kind='general'), weight=600, timeout_s=1500))
    return dict(
        instances=I,
        explanation=("bounded symbolic verification of the bounded-disk part of C20 in exact complex arithmetic (re/im pairs): spherical_to_projective / "
                     "projective_to_spherical are mutually inverse on the unit sphere (rational parametrisation, both charts by forking on z > 0) and agree with "
                     "stereographic projection; CP1Disk(c, r) reports centre c and radius r and an interior point inside; T @ disk for symbolic affine Moebius "
                     "maps (after a prior circle query on the original disk): image boundary points lie on the reported circle and all four defining points are "
                     "mapped by the matrix; contains / intersects (elementwise and pairwise) agree with the set-theoretic answer in terms of |c1-c2|, r1, r2 for all four combinations of bounded disks and disks containing infinity (the latter given by three boundary points and an interior point outside the circle).  "
                     "utils.c_to_r (astype('complex').view) is replaced by its two-line meaning in symbolic mode (stated cut)"),
        bounds=dict(disks="bounded disks, affine radius metric; relations with the first centre at a concrete point and all other data symbolic", maps="z -> a z + b (quick); 1/(z+t) and general 2x2 attempted in thorough"),
        outside=["Fubini-Study construction (np.linalg.qr), fs_center / fs_diameter (arctan / tan of symbolic lengths)",
                 "complement / inversion (np.emath.sqrt of a symbolic complex number): disks containing infinity are built from their four defining points instead",
                 "side of the image interior point for non-affine maps"],
        assumptions=["radius > 0; non-tangent position for the relation tests; image boundary points finite"],
    )
