"""C03 -- applying transformations is a left group action on every kind of object."""
import numpy as np
from geometry_tools import projective, hyperbolic, representation
from symnp import npmodels


def _det(M):
    return npmodels.det_sym(M) if M.dtype == object else np.linalg.det(M)


def _inv_mats(h, names, d, complex_=False, shape=()):
    out = []
    for nm in names:
        M = (h.carr if complex_ else h.arr)(nm, shape + (d, d))
        for idx in np.ndindex(*shape):
            h.assume(_det(M[idx]) != 0, 'invertible')
        out.append(M)
    return out


def _interior(h, x):
    for idx in np.ndindex(*x.shape[:-1]):
        h.assume(h.dot(x[idx], x[idx]) < 1, 'interior point')


def _make(h, cls, d, shape, complex_=False):
    """(object, transformation class).  d = ambient vector-space dimension"""
    mk = h.carr if complex_ else h.arr
    P, H = projective, hyperbolic
    if cls == 'proj.Point':
        return P.Point(mk('x', shape + (d,))), P.Transformation
    if cls == 'proj.PointPair':
        return P.PointPair(mk('x', shape + (2, d))), P.Transformation
    if cls == 'proj.Polygon':
        return P.Polygon(mk('x', shape + (3, d))), P.Transformation
    if cls == 'proj.Simplex':
        return P.Simplex(mk('x', shape + (d, d))), P.Transformation
    if cls == 'proj.Subspace':
        return P.Subspace(mk('x', shape + (2, d))), P.Transformation
    if cls == 'proj.Transformation':
        return P.Transformation(mk('x', shape + (d, d))), P.Transformation
    if cls == 'hyp.Point':
        return H.Point(mk('x', shape + (d,))), H.Isometry
    if cls == 'hyp.Isometry':
        return H.Isometry(mk('x', shape + (d, d))), H.Isometry
    if cls == 'hyp.Geodesic':
        return H.Geodesic(mk('x', shape + (2, d))), H.Isometry
    if cls == 'hyp.Subspace':
        return H.Subspace(mk('x', shape + (2, d))), H.Isometry
    if cls == 'hyp.Horosphere':
        return H.Horosphere(mk('c', shape + (d,)), mk('r', shape + (d,))), H.Isometry
    if cls == 'hyp.Hyperplane':
        return H.Hyperplane(mk('x', shape + (d, d))), H.Isometry
    if cls in ('hyp.Segment', 'hyp.Polygon', 'hyp.TangentVector'):
        k = {'hyp.Segment': 2, 'hyp.Polygon': 3, 'hyp.TangentVector': 1}[cls]
        x = mk('x', shape + (k, d - 1))
        _interior(h, x)
        pts = H.Point(x, model="klein")
        if cls == 'hyp.Segment':
            return H.Segment(pts.proj_data), H.Isometry
        if cls == 'hyp.Polygon':
            return H.Polygon(pts.proj_data), H.Isometry
        v = mk('v', shape + (d,))
        return H.TangentVector(H.Point(pts.proj_data[..., 0, :]), v), H.Isometry
    raise ValueError(cls)


CLASSES = ['proj.Point', 'proj.PointPair', 'proj.Polygon', 'proj.Simplex', 'proj.Subspace', 'proj.Transformation',
           'hyp.Point', 'hyp.Isometry', 'hyp.Geodesic', 'hyp.Subspace', 'hyp.Horosphere', 'hyp.Hyperplane',
           'hyp.Segment', 'hyp.Polygon', 'hyp.TangentVector']


def _cmp(h, tag, got, want, exact=True):
    h.holds(f"{tag}:type", type(got) is type(want))
    h.eq(f"{tag}:shape", np.array(got.shape, dtype=int), np.array(want.shape, dtype=int))
    for part in ('proj_data', 'aux_data', 'dual_data'):
        g, w = getattr(got, part), getattr(want, part)
        if g is None or w is None:
            h.holds(f"{tag}:{part}-none", g is None and w is None)
            continue
        if exact:
            h.eq(f"{tag}:{part}", g, w)
        else:
            h.proj_eq(f"{tag}:{part}", g, w)


def action(h, cls='proj.Point', d=3, shape=(), tshape=(), complex_=False):
    """(A@B)@X == A@(B@X), identity@X == X, A.inv()@(A@X) == X  (primary, auxiliary and dual data)"""
    X, T = _make(h, cls, d, shape, complex_)
    Am, Bm = _inv_mats(h, ['A', 'B'], d, complex_, tshape)
    A, B = T(Am), T(Bm)
    AB = A @ B
    h.holds("composition type", type(AB) is T)
    _cmp(h, "assoc", AB @ X, A @ (B @ X))
    ident = (hyperbolic.identity if T is hyperbolic.Isometry else projective.identity)(d - 1)
    _cmp(h, "identity", ident @ X, X)
    _cmp(h, "inverse", A.inv() @ (A @ X), X)
    # the image is computed by right multiplication with the row matrix
    if not tshape:
        h.eq("image = data @ matrix", (A @ X).proj_data, X.proj_data @ Am)


def used_operands(h, cls='proj.Point', d=2):
    """multi-step: operands whose inverse was already taken are composed / conjugated, then inverted (a cached or stale
    inverse carried along by copy() would show here)"""
    X, T = _make(h, cls, d, ())
    Am, Bm = _inv_mats(h, ['A', 'B'], d)
    A, B = T(Am), T(Bm)
    Ainv, Binv = A.inv(), B.inv()
    C = A @ B
    _cmp(h, "inverse(product of used operands)", C.inv() @ (C @ X), X)
    D = Binv @ A @ B
    _cmp(h, "inverse(conjugate)", D.inv() @ (D @ X), X)
    E = Binv @ Ainv
    _cmp(h, "inverse(product of inverses)", E.inv() @ X, C @ X)
    _cmp(h, "double inverse", A.inv().inv() @ X, A @ X)


def rep_boundary(h, d=3, hyp=False, maxlen=2):
    """rep[w] @ p equals the product of the generator matrices, in word order, applied to p as a column vector"""
    import itertools
    Am, Bm = _inv_mats(h, ['A', 'B'], d)
    x = h.arr('x', (d,))
    if hyp:
        rep = hyperbolic.HyperbolicRepresentation()
        rep["a"] = hyperbolic.Isometry(Am.copy(), column_vectors=True)
        rep["b"] = hyperbolic.Isometry(Bm.copy(), column_vectors=True)
        p = hyperbolic.Point(x.copy())
        T = hyperbolic.Isometry
    else:
        rep = projective.ProjectiveRepresentation()
        rep["a"] = projective.Transformation(Am.copy(), column_vectors=True)
        rep["b"] = projective.Transformation(Bm.copy(), column_vectors=True)
        p = projective.Point(x.copy())
        T = projective.Transformation
    tab = {'a': Am, 'b': Bm, 'A': np.linalg.inv(Am), 'B': np.linalg.inv(Bm)}
    words = [""] + ["".join(t) for L in range(1, maxlen + 1) for t in itertools.product("abAB", repeat=L)]
    for w in words:
        M = np.zeros((d, d), dtype=Am.dtype)
        for i in range(d):
            M[i, i] = 1
        for ch in w:
            M = M @ tab[ch]
        el = rep[w]
        h.holds(f"type[{w!r}]", type(el) is T)
        h.eq(f"rep[{w!r}] @ p", (el @ p).proj_data, M @ x, validate=(len(w) <= 1))
    els = rep.elements(["ab", "Ba"])
    h.eq("elements @ p", (els @ p).proj_data, np.array([tab['a'] @ tab['b'] @ x, tab['B'] @ tab['a'] @ x]))
    h.eq("word composition", (rep["a"] @ rep["b"]).proj_data, rep["ab"].proj_data)
