"""Bodies of the CrossHair conditions (engine E2): plain Python over small integers that builds the REAL
geometry_tools.automata.fsa.FSA / representation.Representation objects, runs the real methods and compares them
with short set-based reference models.  Each body returns True iff the property holds for its arguments."""
import copy
import itertools

LABELS = ['a', 'b', 'c']


# ------------------------------------------------------------------------------------------------ helpers
def _fsa():
    from geometry_tools.automata import fsa
    return fsa


def table_to_graph(t, S, L):
    """t: flat list, t[v*L + l] in {-1, 0..S-1}"""
    d = {v: {} for v in range(S)}
    for v in range(S):
        for l in range(L):
            w = t[v * L + l]
            if w >= 0:
                d[v][LABELS[l]] = w
    return d


def edges_of_table(t, S, L):
    return {(v, t[v * L + l], LABELS[l]) for v in range(S) for l in range(L) if t[v * L + l] >= 0}


def view_graph(A):
    return sorted((v, w, l) for v, nb in A.graph_dict.items() for l, w in nb.items())


def view_out(A):
    return sorted((v, w, l) for v, nb in A.out_dict.items() for w, ls in nb.items() for l in ls)


def view_in(A):
    return sorted((v, w, l) for w, nb in A.in_dict.items() for v, ls in nb.items() for l in ls)


def views_coherent(A, model_edges, model_vertices):
    g, o, i = view_graph(A), view_out(A), view_in(A)
    m = sorted(model_edges)
    if not (g == m and o == m and i == m):
        return False
    # API views
    if sorted(A.edges(with_labels=True)) != m:
        return False
    if sorted(set(A.edges())) != sorted({(v, w) for v, w, _ in m}):
        return False
    if set(A.vertices()) != set(model_vertices):
        return False
    for v in model_vertices:
        if sorted(A.edges_out(v)) != sorted(e for e in m if e[0] == v):
            return False
        if sorted(A.edges_in(v)) != sorted(e for e in m if e[1] == v):
            return False
        if set(w for w in A.neighbors_out(v) if len(A.out_dict[v][w]) > 0) != {e[1] for e in m if e[0] == v}:
            return False
        if set(w for w in A.neighbors_in(v) if len(A.in_dict[v][w]) > 0) != {e[0] for e in m if e[1] == v}:
            return False
    return True


# ------------------------------------------------------------------------------------------------ C09
def build_by_route(route, t, S, L):
    fsa = _fsa()
    g = table_to_graph(t, S, L)
    if route == 0:
        return fsa.FSA(g, start_vertices=[0])
    if route == 1:
        out = {v: {} for v in range(S)}
        for v, nb in g.items():
            for l, w in nb.items():
                out[v].setdefault(w, []).append(l)
        return fsa.FSA(out, start_vertices=[0], graph_dict=False)
    if route == 2:
        return copy.deepcopy(fsa.FSA(g, start_vertices=[0]))
    if route == 3:
        A = fsa.FSA(g, start_vertices=[0])
        return A.rename_generators({l: l for l in LABELS}, inplace=False)
    raise ValueError(route)


def apply_op(A, edges, verts, op, a, b, c, S, L):
    """apply one operation to the automaton and to the set model; returns False if the op is not applicable
    (precondition of determinism), None otherwise"""
    lab = LABELS[c % L]
    if op == 0:
        A.add_vertices([a])
        verts.add(a)
    elif op == 1:
        # single edge; skipped when it would make the automaton non-deterministic
        if any(v == a and l == lab and w != b for (v, w, l) in edges):
            return
        A.add_edges([(a, b, lab)])
        edges.add((a, b, lab))
        verts.update([a, b])
    elif op == 2:
        # elist form: all labels in one call
        labs = [LABELS[i] for i in range(L) if (c >> i) & 1]
        labs = [l for l in labs if not any(v == a and l2 == l and w != b for (v, w, l2) in edges)]
        new = [l for l in labs if (a, b, l) not in edges]
        if not new:
            # "adding multiple edges" means at least one: an empty label list is not an operation of the property (the library records a
            # label-less adjacency for it, which recurrent() then counts as an edge -- noted in DESIGN.md, not claimed)
            return
        A.add_edges([(a, b, new)], elist=True)
        for l in new:
            edges.add((a, b, l))
        verts.update([a, b])
    elif op == 3:
        if a in verts:
            A.delete_vertex(a)
            verts.discard(a)
            for e in [e for e in edges if e[0] == a or e[1] == a]:
                edges.discard(e)
    elif op == 4:
        A.recurrent(inplace=True)
        changed = True
        while changed:
            changed = False
            for v in sorted(verts):
                if not any(e[0] == v for e in edges) or not any(e[1] == v for e in edges):
                    verts.discard(v)
                    for e in [e for e in edges if e[0] == v or e[1] == v]:
                        edges.discard(e)
                    changed = True
    elif op == 5:
        # swap the first two labels, in place
        m = {l: l for l in LABELS}
        m['a'], m['b'] = 'b', 'a'
        A.rename_generators(m, inplace=True)
        new = {(v, w, m[l]) for (v, w, l) in edges}
        edges.clear()
        edges.update(new)
    elif op == 6:
        A.delete_vertices([a] if a in verts else [])
        if a in verts:
            verts.discard(a)
            for e in [e for e in edges if e[0] == a or e[1] == a]:
                edges.discard(e)


def c09_history(route, t, ops, S=3, L=2):
    """ops: flat list of (op, a, b, c) quadruples"""
    A = build_by_route(route, t, S, L)
    edges = set(edges_of_table(t, S, L))
    verts = set(range(S))
    if not views_coherent(A, edges, verts):
        return False
    for k in range(len(ops) // 4):
        op, a, b, c = ops[4 * k: 4 * k + 4]
        apply_op(A, edges, verts, op, a, b, c, S, L)
        if not views_coherent(A, edges, verts):
            return False
    return True


def _shares_lists(d1, d2):
    ids = {id(ls) for nb in d1.values() for ls in nb.values()}
    return any(id(ls) in ids for nb in d2.values() for ls in nb.values())


def c09_no_alias(route, t, S=3, L=2):
    """representation invariant used by the inductive step: label lists of the out- and in-view are distinct objects; an automaton built from
    a target->labels dictionary or from another automaton's outgoing view shares no label list with its source (otherwise a later add_edges
    on one shows up in the other's outgoing view only)"""
    A = build_by_route(route, t, S, L)
    if route == 1:
        fsa = _fsa()
        src = {v: {} for v in range(S)}
        for v, nb in table_to_graph(t, S, L).items():
            for l, w in nb.items():
                src[v].setdefault(w, []).append(l)
        keep = copy.deepcopy(src)
        B1 = fsa.FSA(src, start_vertices=[0], graph_dict=False)
        B2 = fsa.FSA(B1.out_dict, start_vertices=[0], graph_dict=False)
        if _shares_lists(src, B1.out_dict) or _shares_lists(B1.out_dict, B2.out_dict) or _shares_lists(B1.in_dict, B2.in_dict):
            return False
        # behavioural form: adding a parallel edge to the copy leaves the source automaton and the caller's dictionary alone
        e = [(v, w) for v, nb in src.items() for w in nb]
        if e:
            v, w = e[0]
            before = (view_graph(B1), view_out(B1), view_in(B1))
            B2.add_edges([(v, w, 'z')])
            if (view_graph(B1), view_out(B1), view_in(B1)) != before or src != keep:
                return False
    for v, nb in A.out_dict.items():
        for w, ls in nb.items():
            if w in A.in_dict and v in A.in_dict[w] and A.in_dict[w][v] is ls:
                return False
    return True


def render_kbmag(trans, initial, S, L, spacing=0, interval=False):
    sp = ["", " ", "\n   "][spacing]
    def row(v):
        r = [trans[v * L + l] for l in range(L)]
        if interval and len(r) >= 2 and all(r[i + 1] == r[i] + 1 for i in range(len(r) - 1)):
            return "[%d..%d]" % (r[0], r[-1])          # GAP prints ranges this way also inside nested lists
        return "[" + ",".join(str(x) for x in r) + "]"
    rows = ",".join(sp + row(v) for v in range(S))
    names = ",".join(LABELS[:L])
    acc = f"[1..{S}]" if interval else "[" + ",".join(str(i + 1) for i in range(S)) + "]"
    return ("_RWS.wa := rec(\n isFSA := true,\n alphabet := rec(\n type := \"identifiers\",\n size := %d,\n format := \"dense\",\n names := [%s]\n ),\n"
            " states := rec(\n type := \"simple\",\n size := %d\n ),\n flags := [\"DFA\",\"minimized\"],\n initial := [%d],\n accepting := %s,\n"
            " table := rec(\n format := \"dense deterministic\",\n numTransitions := %d,\n transitions := [%s]\n )\n);\n"
            % (L, names, S, initial, acc, sum(1 for x in trans if x > 0), rows))


def c09_kbmag(trans, initial, S=2, L=2, spacing=0, interval=False):
    """trans[v*L+l] in 0..S (0 = fail state, states are 1-based); the loaded automaton has exactly these transitions"""
    fsa = _fsa()
    from geometry_tools.automata import gap_parse
    text = render_kbmag(trans, initial, S, L, spacing, interval)
    rec, _ = gap_parse.parse_record(text)
    A = fsa._from_gap_record(rec)
    want = sorted((v + 1, trans[v * L + l], LABELS[l]) for v in range(S) for l in range(L) if trans[v * L + l] > 0)
    if view_graph(A) != want or view_out(A) != want or view_in(A) != want:
        return False
    if list(A.start_vertices) != [initial]:
        return False
    if set(A.vertices()) != set(range(1, S + 1)):
        return False
    return True


# ------------------------------------------------------------------------------------------------ C10
def ref_walk(t, S, L, w, start=0):
    s = start
    n = 0
    for x in w:
        nx = t[s * L + x]
        if nx < 0:
            return False, s, n
        s = nx
        n += 1
    return True, s, n


def c10_walk(t, w, start, S=2, L=2, sv=0):
    """sv: the automaton's own (default) start vertex; start: an explicitly requested start state"""
    fsa = _fsa()
    A = fsa.FSA(table_to_graph(t, S, L), start_vertices=[sv])
    word = "".join(LABELS[x] for x in w)
    ok, end, n = ref_walk(t, S, L, w, sv)
    if A.accepts(word) != ok:
        return False
    if ok and A.follow_word(word) != end:
        return False
    if not ok:
        try:
            A.follow_word(word)
            return False
        except fsa.FSAException:
            pass
    if A.initial_accepted_subword(word) != word[:n]:
        return False
    if A.initial_rejected_subword(word) != (word if ok else word[:n + 1]):
        return False
    # explicit start state
    ok2, end2, _ = ref_walk(t, S, L, w, start)
    if A.accepts(word, start_vertex=start) != ok2:
        return False
    if ok2 and A.follow_word(word, start_vertex=start) != end2:
        return False
    return True


def ref_language(t, S, L, n, start=0):
    """list of (word, end state) of all accepted words of length exactly n"""
    out = [((), start)]
    for _ in range(n):
        out = [(w + (l,), t[s * L + l]) for (w, s) in out for l in range(L) if t[s * L + l] >= 0]
    return out


def c10_enumerate(t, n, start, S=2, L=2, sv=0):
    fsa = _fsa()
    A = fsa.FSA(table_to_graph(t, S, L), start_vertices=[sv])
    for st in (None, start):
        s0 = sv if st is None else st
        want = sorted(("".join(LABELS[x] for x in w), s) for (w, s) in ref_language(t, S, L, n, s0))
        got = list(A.enumerate_fixed_length_paths(n, start_vertex=st, with_states=True))
        if sorted(got) != want:
            return False
        if sorted(A.enumerate_fixed_length_paths(n, start_vertex=st)) != [w for w, _ in want]:
            return False
        allw = []
        for k in range(n + 1):
            allw += ["".join(LABELS[x] for x in w) for (w, s) in ref_language(t, S, L, k, s0)]
        got_all = list(A.enumerate_words(n, start_vertex=st))
        if sorted(got_all) != sorted(allw) or len(got_all) != len(set(got_all)):
            return False
    return True


def c10_multiple(t, k, w, S=2, L=2):
    """automaton_multiple(k) accepts a word (sequence of k-letter chunks) iff the original accepts the concatenation"""
    fsa = _fsa()
    A = fsa.FSA(table_to_graph(t, S, L), start_vertices=[0])
    before = (view_graph(A), view_out(A), view_in(A), list(A.start_vertices))
    M = A.automaton_multiple(k)
    if (view_graph(A), view_out(A), view_in(A), list(A.start_vertices)) != before:
        return False
    word = "".join(LABELS[x] for x in w)
    ok, end, n = ref_walk(t, S, L, w, 0)
    if len(w) % k == 0:
        chunks = [word[i:i + k] for i in range(0, len(word), k)]
        if M.accepts(chunks) != ok:
            return False
        if ok and M.follow_word(chunks) != end:
            return False
    # every edge label of the multiple has length k and the language of M is exactly the accepted words with k | len
    for v, nb in M.graph_dict.items():
        for lab, tgt in nb.items():
            if len(lab) != k:
                return False
            okk, e2, _ = ref_walk(t, S, L, [LABELS.index(ch) for ch in lab], v)
            if not okk or e2 != tgt:
                return False
    # views of the new automaton are coherent too
    return view_graph(M) == view_out(M) == view_in(M)


def c10_rename(t, perm, w, inplace, S=2, L=2):
    """relabelling by an injective map: a word is accepted by the renamed automaton iff its preimage is accepted"""
    fsa = _fsa()
    A = fsa.FSA(table_to_graph(t, S, L), start_vertices=[0])
    maps = [dict(zip(LABELS[:L], p)) for p in itertools.permutations(LABELS[:L])] + [dict(zip(LABELS[:L], ['x', 'y', 'z'][:L])),
                                                                                      dict(zip(LABELS[:L], (LABELS + ["d"])[1:L + 1]))]
    m = maps[perm % len(maps)]
    before = (view_graph(A), view_out(A), view_in(A))
    if inplace:
        A.rename_generators(m, inplace=True)
        R = A
    else:
        R = A.rename_generators(m, inplace=False)
        if (view_graph(A), view_out(A), view_in(A)) != before:
            return False
    want = sorted((v, x, m[l]) for (v, x, l) in edges_of_table(t, S, L))
    if view_graph(R) != want or view_out(R) != want or view_in(R) != want:
        return False
    ok, end, n = ref_walk(t, S, L, w, 0)
    word = "".join(m[LABELS[x]] for x in w)
    return R.accepts(word) == ok


def c10_recurrent(t, inplace, S=3, L=2):
    fsa = _fsa()
    A = fsa.FSA(table_to_graph(t, S, L), start_vertices=[0])
    before = (view_graph(A), view_out(A), view_in(A))
    edges = set(edges_of_table(t, S, L))
    verts = set(range(S))
    changed = True
    while changed:
        changed = False
        for v in sorted(verts):
            if not any(e[0] == v for e in edges) or not any(e[1] == v for e in edges):
                verts.discard(v)
                edges = {e for e in edges if e[0] != v and e[1] != v}
                changed = True
    if inplace:
        A.recurrent(inplace=True)
        R = A
    else:
        R = A.recurrent()
        if (view_graph(A), view_out(A), view_in(A)) != before:
            return False
    return views_coherent(R, edges, verts)


def c10_shortest(t, root, ties, S=3, L=2):
    """remove_long_paths keeps exactly the edges (v, w) with dist(w) = dist(v) + 1 (edge_ties) from the root"""
    fsa = _fsa()
    A = fsa.FSA(table_to_graph(t, S, L), start_vertices=[0])
    before = (view_graph(A), view_out(A), view_in(A))
    H = A.remove_long_paths(root=root, edge_ties=ties)
    if (view_graph(A), view_out(A), view_in(A)) != before:
        return False
    E = edges_of_table(t, S, L)
    dist = {root: 0}
    frontier = [root]
    order = {root: None}
    tree = set()
    while frontier:
        nxt = []
        for v in frontier:
            # neighbours in the order the library visits them: out_dict insertion order
            for w in A.out_dict[v].keys():
                if len(A.out_dict[v][w]) and w not in dist:
                    dist[w] = dist[v] + 1
                    nxt.append(w)
                    tree.add((v, w))
        frontier = nxt
    if ties:
        want = sorted(e for e in E if e[0] in dist and e[1] in dist and dist[e[1]] == dist[e[0]] + 1)
    else:
        want = sorted(e for e in E if (e[0], e[1]) in tree)
    return view_graph(H) == want and view_out(H) == want and view_in(H) == want and set(H.vertices()) == set(range(S))


# ------------------------------------------------------------------------------------------------ C06
GENS = None


def _rep(L=2):
    import numpy as np
    from geometry_tools import representation
    rep = representation.Representation()
    mats = [np.array([[1, 2], [0, 1]]), np.array([[1, 0], [2, 1]]), np.array([[5, 2], [2, 1]])]
    for i in range(L):
        rep[LABELS[i]] = mats[i]
    return rep


def ref_accepted(t, S, L, length, maxlen, start=None, end=None):
    """list of accepted words (one per accepting path)"""
    lens = range(length + 1) if maxlen else [length]
    out = []
    for n in lens:
        if end is None:
            s0 = 0 if start is None else start
            out += [w for (w, s) in ref_language(t, S, L, n, s0)]
        else:
            for s0 in range(S):
                for (w, s) in ref_language(t, S, L, n, s0):
                    if s == end:
                        if n == 0:
                            # the empty word ends at `end` only when it also starts there
                            out.append(w)
                        else:
                            out.append(w)
    return out


def c06_accepted(t, length, maxlen, with_words, mode, state, S=2, L=2, renamed=False, sv=0):
    """mode 0: default start; 1: start_state=state; 2: end_state=state;  sv: the automaton's own (default) start vertex"""
    import numpy as np
    fsa = _fsa()
    if renamed:
        # multi-step construction: build with the first two labels swapped, then relabel in place back to the intended automaton
        sw = {l: l for l in LABELS}
        sw['a'], sw['b'] = 'b', 'a'
        g = {v: {sw[l]: w for l, w in nb.items()} for v, nb in table_to_graph(t, S, L).items()}
        A = fsa.FSA(g, start_vertices=[sv])
        A.rename_generators(sw, inplace=True)
    else:
        A = fsa.FSA(table_to_graph(t, S, L), start_vertices=[sv])
    rep = _rep(L)
    kw = {}
    if mode == 1:
        kw['start_state'] = state
    elif mode == 2:
        kw['end_state'] = state
    res = rep.automaton_accepted(A, length, maxlen=maxlen, with_words=True, **kw)
    mats, words = res
    if mode == 2:
        # end_state: words read along paths from the start vertex that end at `state`
        lens = range(length + 1) if maxlen else [length]
        want = []
        for n in lens:
            want += [w for (w, s) in ref_language(t, S, L, n, sv) if s == state]
    else:
        want = ref_accepted(t, S, L, length, maxlen, start=(state if mode == 1 else sv))
    want_words = sorted("".join(LABELS[x] for x in w) for w in want)
    if sorted(words) != want_words:
        return False
    if len(mats) != len(words):
        return False
    for M, w in zip(mats, words):
        if not np.array_equal(M, rep._word_value(w)):
            return False
    if True:
        m2 = rep.automaton_accepted(A, length, maxlen=maxlen, with_words=False, **kw)
        if len(m2) != len(mats) or not np.array_equal(np.asarray(m2), np.asarray(mats)):
            return False
    if mode == 0:
        ew = sorted(A.enumerate_words(length)) if maxlen else sorted(A.enumerate_fixed_length_paths(length))
        if ew != want_words:
            return False
    # reuse of a caller-supplied memo dictionary
    memo = {}
    r1 = rep.automaton_accepted(A, length, maxlen=maxlen, with_words=True, precomputed=memo, **kw)
    r2 = rep.automaton_accepted(A, length, maxlen=maxlen, with_words=True, precomputed=memo, **kw)
    if sorted(r1[1]) != want_words or sorted(r2[1]) != want_words:
        return False
    if not np.array_equal(np.asarray(r1[0]), np.asarray(r2[0])):
        return False
    return True


def c06_free(length, maxlen, L=2):
    """freely_reduced_elements returns every freely reduced word (of length <= / == length) exactly once"""
    import numpy as np
    from geometry_tools.utils import words as W
    rep = _rep(L)
    mats, ws = rep.freely_reduced_elements(length, maxlen=maxlen, with_words=True)
    letters = [LABELS[i] for i in range(L)] + [LABELS[i].upper() for i in range(L)]
    lens = range(length + 1) if maxlen else [length]
    want = sorted("".join(w) for n in lens for w in itertools.product(letters, repeat=n) if W.simplify_word("".join(w)) == "".join(w))
    if sorted(ws) != want:
        return False
    for M, w in zip(mats, ws):
        if not np.array_equal(M, rep._word_value(w)):
            return False
    return True
