from .chplan import tables, ch_instances, sample, CH_TRUSTED

W4 = [("n", "int"), ("w0", "int"), ("w1", "int"), ("w2", "int"), ("w3", "int")]


def _wpre(L, maxn):
    return [f"0 <= n <= {maxn}", f"0 <= w0 < {L} and 0 <= w1 < {L} and 0 <= w2 < {L} and 0 <= w3 < {L}"]


def plan(tier):
    q = tier == 'quick'
    I = []
    sizes = [(2, 2)] if q else [(2, 2), (3, 2), (2, 3)]
    for S, L in sizes:
        T = tables(S, L)
        if (S, L) != (2, 2):
            T = sample(T, 240)
        cfg = [dict(t=t, S=S, L=L) for t in T]
        I += ch_instances(f"walk[{S}x{L}]", 'c10_walk', W4 + [("start", "int"), ("sv", "int")], _wpre(L, 4) + [f"0 <= start < {S}", f"0 <= sv < {S}"],
                          "B.c10_walk({t}, [w0, w1, w2, w3][:n], start, {S}, {L}, sv)", cfg, per_batch=6, timeout=90)
        I += ch_instances(f"enumerate[{S}x{L}]", 'c10_enumerate', [("n", "int"), ("start", "int"), ("sv", "int")], ["0 <= n <= 3", f"0 <= start < {S}", f"0 <= sv < {S}"],
                          "B.c10_enumerate({t}, n, start, {S}, {L}, sv)", cfg, per_batch=12, timeout=60)
        I += ch_instances(f"multiple[{S}x{L}]", 'c10_multiple', [("k", "int")] + W4, ["1 <= k <= 3"] + _wpre(L, 4),
                          "B.c10_multiple({t}, k, [w0, w1, w2, w3][:n], {S}, {L})", cfg, per_batch=4, timeout=120)
        I += ch_instances(f"rename[{S}x{L}]", 'c10_rename', [("perm", "int"), ("inplace", "bool"), ("n", "int"), ("w0", "int"), ("w1", "int"), ("w2", "int")],
                          ["0 <= perm < 8", f"0 <= n <= {3 if L == 2 else 2}", f"0 <= w0 < {L} and 0 <= w1 < {L} and 0 <= w2 < {L}"],
                          "B.c10_rename({t}, perm, [w0, w1, w2][:n], inplace, {S}, {L})", cfg, per_batch=6, timeout=90 if L == 2 else 150)
    # parallel edges into a pruned vertex from a surviving one need three labels: all 729 tables (only the inplace flag is symbolic: cheap)
    I += ch_instances("recurrent[2x3]", 'c10_recurrent', [("inplace", "bool")], ["True"],
                      "B.c10_recurrent({t}, inplace, {S}, {L})", [dict(t=t, S=2, L=3) for t in tables(2, 3)], per_batch=40, timeout=30)
    for S, L in ([(2, 2)] if q else [(2, 2), (3, 2)]):
        T = tables(S, L)
        if (S, L) != (2, 2):
            T = sample(T, 600)
        cfg = [dict(t=t, S=S, L=L) for t in T]
        I += ch_instances(f"recurrent[{S}x{L}]", 'c10_recurrent', [("inplace", "bool")], ["True"],
                          "B.c10_recurrent({t}, inplace, {S}, {L})", cfg, per_batch=20, timeout=30)
        I += ch_instances(f"shortest-paths[{S}x{L}]", 'c10_shortest', [("root", "int"), ("ties", "bool")], [f"0 <= root < {S}"],
                          "B.c10_shortest({t}, root, ties, {S}, {L})", cfg, per_batch=20, timeout=30)
    return dict(
        instances=I,
        explanation=("bounded symbolic verification with CrossHair: for every deterministic automaton table of the stated sizes (a concrete "
                     "configuration slice, enumerated) the REAL fsa.FSA is built and its methods are executed symbolically over the word (length and "
                     "letters), the start state, the multiple k, the relabelling, the root and the option flags; each condition compares with a set-based "
                     "reference model (table walk, reference language, greatest fixpoint of 'has in- and out-edge', breadth-first distances).  "
                     "'Confirmed over all paths' = CrossHair exhausted the symbolic arguments for that table; a counterexample is replayed in plain Python"),
        bounds=dict(automata="all 81 tables with 2 states x 2 labels (quick); thorough adds spread samples of 240 (walk/enumerate/multiple/rename) or 600 "
                             "(recurrent/shortest) tables with 3 states x 2 labels and 2 states x 3 labels; recurrent additionally over all 729 tables with 2 states x 3 labels in both tiers", words="length <= 4 (walk, multiple), <= 3 (enumerate, rename; rename over 3 labels: <= 2)",
                    k="1..3", relabellings="all permutations of the alphabet, a shift and fresh letters; in place and not"),
        outside=["automata with more than 3 states / 3 labels", "words longer than 4", "random large automata", "built-in automata (covered as concrete tables in C07's engine for Coxeter groups only)"],
        assumptions=["deterministic automata given as label->target tables over integer states"],
        trusted_base=CH_TRUSTED,
        rule="one evaluation = one (condition, automaton table) slice decided by CrossHair over its symbolic arguments; non-trivial = 'Confirmed over all paths' with the reachability twin refuted",
    )
