"""C02 -- every isometry the library builds preserves the Minkowski form and distances."""
import math
import numpy as np
from geometry_tools import hyperbolic, utils, lie
from symnp import npmodels, transc


def _det(M):
    return npmodels.det_sym(M) if M.dtype == object else np.linalg.det(M)


def _J(n):
    J = np.zeros((n + 1, n + 1), dtype=int)
    for i in range(n + 1):
        J[i, i] = 1
    J[0, 0] = -1
    return J


def _E(h, d):
    return h.expo(d)


def _interior(h, name, n):
    x = h.arr(name, (n,))
    h.assume(h.dot(x, x) < 1, 'interior point')
    return x


def _check_iso(h, iso, n, tag, distances=True, test_vector=True):
    distances = distances and n <= 2
    M = iso.proj_data
    J = _J(n)
    h.holds(f"{tag}:is Isometry", isinstance(iso, hyperbolic.Isometry))
    h.eq(f"{tag}:M J M^T = J", M @ J @ M.T, J)
    h.eq(f"{tag}:M^T J M = J", M.T @ J @ M, J)
    if test_vector:
        v = h.arr('v', (n + 1,))
        w = (iso @ hyperbolic.Point(v.copy())).proj_data
        h.eq(f"{tag}:<Mv,Mv> = <v,v>", w @ J @ w, v @ J @ v, validate=False)
    if distances:
        x, y = _interior(h, 'p', n), _interior(h, 'q', n)
        p, q = hyperbolic.Point(x.copy(), model="klein"), hyperbolic.Point(y.copy(), model="klein")
        d0 = hyperbolic.Point(x.copy(), model="klein").distance(hyperbolic.Point(y.copy(), model="klein"))
        d1 = (iso @ p).distance(iso @ q)
        h.eq(f"{tag}:distance preserved", _E(h, d1), _E(h, d0), validate=False)


def _angle(h, name):
    return transc.t_angle(h, name)


def rotation(h, n=2, flip=False):
    th = _angle(h, 'theta')
    if flip:
        th = th + (transc.Ang.pi_multiple(1) if h.is_sym() else math.pi)     # second chart of the circle: covers theta = pi
    iso = hyperbolic.Isometry.standard_rotation(th, dimension=n)
    _check_iso(h, iso, n, "standard_rotation")
    c, s = (th.cos(), th.sin()) if h.is_sym() else (math.cos(th), math.sin(th))
    M = iso.proj_data
    h.eq("rotation block", np.array([[M[1, 1], M[1, 2]], [M[2, 1], M[2, 2]]]), np.array([[c, s], [-s, c]]))
    h.eq("fixes the origin", M[0], np.array([1] + [0] * n))


def elliptic(h, n=3):
    """block = product of plane rotations in the coordinate planes (covers a dense open subset of SO(n); every such product)"""
    planes = [(i, j) for i in range(n) for j in range(i + 1, n)]
    block = np.zeros((n, n), dtype=object if h.is_sym() else float)
    for i in range(n):
        block[i, i] = 1
    for k, (i, j) in enumerate(planes):
        t = h.var(f"t{k}")
        c, s = (1 - t * t) / (1 + t * t), 2 * t / (1 + t * t)
        R = np.zeros((n, n), dtype=block.dtype)
        for a in range(n):
            R[a, a] = 1
        R[i, i], R[i, j], R[j, i], R[j, j] = c, -s, s, c
        block = block @ R
    for cv in (True, False):
        iso = hyperbolic.Isometry.elliptic(n, block.copy(), column_vectors=cv)
        _check_iso(h, iso, n, f"elliptic[column_vectors={cv}]", distances=False)
        M = iso.proj_data
        h.eq(f"block embedded[{cv}]", M[1:, 1:], block.T if cv else block)


def loxodromic(h, n=2):
    lam = h.var('lam')
    h.assume(lam != 0, 'parameter != 0')
    iso = hyperbolic.Isometry.standard_loxodromic(n, lam)
    _check_iso(h, iso, n, "standard_loxodromic", distances=(n <= 2))


def sl2(h, sign=1, chart=0):
    """images of 2x2 matrices of determinant +-1"""
    if chart == 0:
        a, b, c = h.var('a'), h.var('b'), h.var('c')
        h.assume(a != 0, 'chart a != 0')
        d = (sign + b * c) / a
    else:
        b, d = h.var('b'), h.var('d')
        h.assume(b != 0, 'chart a = 0')
        a = h.const(0)
        c = -sign / b
    A = np.empty((2, 2), dtype=object if h.is_sym() else float)
    A[0, 0], A[0, 1], A[1, 0], A[1, 1] = a, b, c, d
    iso = hyperbolic.sl2_iso(A)
    _check_iso(h, iso, 2, f"sl2_iso[det={sign}]", distances=(chart == 0))
    iso2 = hyperbolic.Isometry.from_sl2(A.copy())
    h.eq("from_sl2 == sl2_iso", iso2.proj_data, iso.proj_data)


def from_point(h, n=2, which='origin_to', force=True):
    """isometries built by frame completion (find_isometry with the null-space stub)"""
    h.stub('kernel', mode='flag')
    x = _interior(h, 'x', n)
    p = hyperbolic.Point(x.copy(), model="klein")
    if which == 'origin_to':
        iso = p.origin_to(force_oriented=force)
    elif which == 'timelike_to':
        iso = hyperbolic.timelike_to(p.proj_data.copy(), force_oriented=force)
    else:
        raise ValueError(which)
    _check_iso(h, iso, n, which, distances=False, test_vector=(n <= 1))
    if force:
        h.holds("orientation preserving", _det(iso.proj_data) > 0)


def from_spacelike(h, n=2, force=False):
    h.stub('kernel', mode='flag')
    v = h.arr('v', (n + 1,))
    J = _J(n)
    h.assume(v @ J @ v > 0, 'spacelike vector')
    if not h.is_sym():
        h.assume(v @ J @ v > 1e-6, 'spacelike beyond the library threshold')
    iso = hyperbolic.spacelike_to(v.copy(), force_oriented=force)
    _check_iso(h, iso, n, "spacelike_to", distances=False, test_vector=False)


def from_tangent(h, n=2, which='origin_to', force=True):
    h.stub('kernel', mode='flag')
    x = _interior(h, 'x', n)
    w = h.arr('w', (n + 1,))
    p = hyperbolic.Point(x.copy(), model="klein")
    tv = hyperbolic.TangentVector(p, w.copy())
    J = _J(n)
    vec = tv.vector
    h.assume(vec @ J @ vec != 0, 'non-zero tangent vector')
    if which == 'origin_to':
        iso = tv.origin_to(force_oriented=force)
    else:
        y = _interior(h, 'y', n)
        u = h.arr('u', (n + 1,))
        tv2 = hyperbolic.TangentVector(hyperbolic.Point(y.copy(), model="klein"), u.copy())
        h.assume(tv2.vector @ J @ tv2.vector != 0, 'non-zero tangent vector')
        iso = tv.isometry_to(tv2, force_oriented=force)
    _check_iso(h, iso, n, f"TangentVector.{which}", distances=False, test_vector=False)


def reflection(h, n=2):
    h.stub('kernel', mode='flag')
    v = h.arr('v', (n + 1,))
    J = _J(n)
    h.assume(v @ J @ v > 0, 'spacelike normal')
    if not h.is_sym():
        h.assume(v @ J @ v > 1e-6, 'spacelike beyond the library threshold')
    H = hyperbolic.Hyperplane(v.copy())
    R = H.reflection_across()
    _check_iso(h, R, n, "reflection_across", distances=False, test_vector=False)


def closure(h, n=2):
    """one inductive step: composition and inverse of ARBITRARY transformations transport the Gram matrix, so any
    finite word in form-preserving isometries preserves the form"""
    d = n + 1
    Am, Bm = h.arr('A', (d, d)), h.arr('B', (d, d))
    h.assume(_det(Am) != 0, 'invertible')
    h.assume(_det(Bm) != 0, 'invertible')
    A, B = hyperbolic.Isometry(Am.copy()), hyperbolic.Isometry(Bm.copy())
    J = _J(n)
    G = lambda T: T.proj_data @ J @ T.proj_data.T
    AB = A @ B
    h.holds("composition is an Isometry", isinstance(AB, hyperbolic.Isometry))
    # (A@B).M = B.M A.M  =>  G(AB) = B.M G(A) B.M^T
    h.eq("G(A@B) = B.M G(A) B.M^T", G(AB), Bm @ G(A) @ Bm.T)
    Ai = A.inv()
    h.holds("inverse is an Isometry", isinstance(Ai, hyperbolic.Isometry))
    h.eq("A.inv() inverts", (Ai @ A).proj_data, np.array(J * J, dtype=object) if h.is_sym() else np.identity(d))
    # if G(A) = J then G(A^-1) = J :  A^-1 J A^-T = J  <=>  J = A J A^T ; stated as: Ai.M G(A) Ai.M^T = J
    h.eq("Ai.M G(A) Ai.M^T = J", Ai.proj_data @ G(A) @ Ai.proj_data.T, J)
    # glue (congruence): if G(A) = J then B.M G(A) B.M^T = B.M J B.M^T = G(B), and Ai.M G(A) Ai.M^T = Ai.M J Ai.M^T = G(A.inv()).
    # X stands for G(A); the solver discharges the substitution step.
    X = np.empty((d, d), dtype=object if h.is_sym() else float)
    for i in range(d):
        for j in range(i, d):
            X[i, j] = X[j, i] = h.var(f"X_{i}_{j}")
    h.assume(np.array([X[i, j] == J[i, j] for i in range(d) for j in range(i, d)]), 'hypothesis G(A) = J')
    h.eq("G(A)=J  =>  B.M G(A) B.M^T = G(B)", Bm @ X @ Bm.T, G(B), validate=False)
    h.eq("G(A)=J  =>  Ai.M G(A) Ai.M^T = G(A.inv())", Ai.proj_data @ X @ Ai.proj_data.T, G(Ai), validate=False)
