"""C05 -- representations are word homomorphisms; derived ones commute with evaluation."""
import itertools
import numpy as np
from geometry_tools import representation, projective, hyperbolic, lie, utils
from geometry_tools.lie import hom as liehom
from geometry_tools.utils import words as W
from symnp import npmodels


def _det(M):
    return npmodels.det_sym(M) if M.dtype == object else np.linalg.det(M)


def _gens(h, n, k=2, complex_=False, integer=False):
    mats = []
    for g in range(k):
        M = (h.carr if complex_ else h.arr)("abcd"[g], (n, n))
        d = _det(M)
        h.assume(d != 0, 'invertible generator')
        mats.append(M)
    return mats


def _words(letters, maxlen):
    out = [""]
    for L in range(1, maxlen + 1):
        out += ["".join(t) for t in itertools.product(letters, repeat=L)]
    return out


def _ref_value(word, table, n, dtype):
    M = np.zeros((n, n), dtype=dtype)
    for i in range(n):
        M[i, i] = 1
    for ch in word:
        M = M @ table[ch]
    return M


def _table(mats, names):
    t = {}
    for nm, M in zip(names, mats):
        t[nm] = M
        t[W.invert_gen(nm)] = np.linalg.inv(M)
    return t


def word_hom(h, n=2, maxlen=3, complex_=False, order='ab', reassign=False, lo=0, first=None):
    """rep[w] equals the left-to-right product of the generator matrices / their inverses, for every word of
    length lo..maxlen over {a,b,A,B}; empty word, inverse letters, free reduction, elements()."""
    A, B = _gens(h, n, 2, complex_)
    rep = representation.Representation()
    if reassign:
        rep["a"] = B.copy()      # assigned, then re-assigned: the later assignment (and its inverse) must win
    for nm in order:
        rep[nm] = (A if nm == 'a' else B).copy()
    if reassign:
        rep["a"] = A.copy()
    tab = _table([A, B], "ab")
    dt = A.dtype
    ws = [w for w in _words("abAB", maxlen) if len(w) >= lo and (first is None or w[:1] == first)]
    for w in ws:
        h.eq(f"rep[{w!r}]", rep[w], _ref_value(w, tab, n, dt), validate=(len(w) <= 2))
        s = W.simplify_word(w)
        if s != w:
            h.eq(f"reduced[{w!r}]", rep[s], rep[w], validate=False)
    I = _ref_value("", tab, n, dt)
    h.eq("empty word", rep[""], I)
    h.eq("aA", rep["aA"], I)
    h.eq("Bb", rep["Bb"], I)
    some = [w for w in ws if len(w) == maxlen][:4] + ["", "a"]
    els = rep.elements(some)
    for i, w in enumerate(some):
        h.eq(f"elements[{i}]={w!r}", els[i], rep[w], validate=False)
    # concatenation
    for u, v in [("ab", "Ba"), ("aB", ""), ("A", "bbA"[:maxlen])]:
        h.eq(f"concat[{u}|{v}]", rep[u + v], rep[u] @ rep[v], validate=False)


def multichar_names(h, n=2):
    """multi-character generator names with the '*' word syntax"""
    A, B = _gens(h, n, 2)
    rep = representation.Representation()
    rep["x1"] = A.copy()
    rep["yy"] = B.copy()
    Ai, Bi = np.linalg.inv(A), np.linalg.inv(B)
    I = A @ Ai
    # list-of-generators syntax
    h.eq("[x1,yy]", rep[["x1", "yy"]], A @ B)
    h.eq("[x1,YY,x1]", rep[["x1", "YY", "x1"]], A @ Bi @ A)
    h.eq("[X1,x1]", rep[["X1", "x1"]], I)
    h.eq("[]", rep[[]], I)
    # '*' / parenthesis syntax
    h.eq("x1*yy", rep.element("x1*yy", parse_simple=False), A @ B)
    h.eq("X1*yy*yy", rep.element("X1*yy*yy", parse_simple=False), Ai @ B @ B)
    h.eq("yy", rep.element("yy", parse_simple=False), B)
    sub = rep.subgroup({"g": ["x1", "yy"], "h": ["YY"]})
    h.eq("subgroup gh", sub["gh"], A @ B @ Bi)
    h.eq("subgroup G", sub["G"], Bi @ Ai)


def _sym2_reference(M, n):
    """matrix of M acting on homogeneous quadratic polynomials, monomial e_u e_v at index sym_index(u, v, n)"""
    m = n * (n + 1) // 2
    S = np.zeros((m, m), dtype=M.dtype)
    for u in range(n):
        for v in range(u, n):
            col = representation.sym_index(u, v, n)
            for a in range(n):
                for b in range(a, n):
                    row = representation.sym_index(a, b, n)
                    if a == b:
                        S[row, col] = M[a, u] * M[a, v]
                    else:
                        S[row, col] = M[a, u] * M[b, v] + M[b, u] * M[a, v]
    return S


def derived(h, which='conjugate', n=2, maxlen=2):
    A, B = _gens(h, n, 2)
    rep = representation.Representation()
    rep["a"] = A.copy()
    rep["b"] = B.copy()
    ws = [w for w in _words("abAB", maxlen)]
    inv = np.linalg.inv
    if which == 'copy':
        new = representation.Representation(rep)
        f = lambda M: M
        # the copy is independent: re-assigning a generator of the copy (or of a wrapped copy) leaves the original alone
        C = h.arr('c', (n, n))
        h.assume(_det(C) != 0, 'invertible')
        cp = representation.Representation(rep)
        cp["a"] = C.copy()
        h.eq("original unchanged by assignment to a copy", rep["a"], A)
        h.eq("original inverse unchanged by assignment to a copy", rep["A"], inv(A), validate=False)
        h.eq("copy carries the new generator", cp["ab"], C @ B, validate=False)
        pw = projective.ProjectiveRepresentation(rep)
        pw["b"] = projective.Transformation(C.copy(), column_vectors=True)
        h.eq("original unchanged by assignment to a wrapped copy", rep["b"], B)
    elif which == 'conjugate':
        C = h.arr('c', (n, n))
        h.assume(_det(C) != 0, 'invertible conjugator')
        new = rep.conjugate(C.copy())
        f = lambda M: inv(C) @ M @ C
    elif which == 'dual':
        new = rep.dual()
        f = lambda M: inv(M).T
    elif which == 'compose_irrep3':
        new = rep.compose(liehom.sl2_irrep(3))
        f = lambda M: lie.sl2_irrep(M, 3)
    elif which == 'compose_block':
        new = rep.compose(liehom.block_include(n + 1))
        f = lambda M: lie.block_include(M, n + 1)
    elif which == 'tensor_product':
        C = h.arr('c', (n, n))
        D = h.arr('d', (n, n))
        h.assume(_det(C) != 0, 'invertible')
        h.assume(_det(D) != 0, 'invertible')
        rep2 = representation.Representation()
        rep2["a"] = C.copy()
        rep2["b"] = D.copy()
        new = rep.tensor_product(rep2)
        tab2 = _table([C, D], "ab")
        for w in ws:
            h.eq(f"tensor[{w!r}]", new[w], np.kron(rep[w], _ref_value(w, tab2, n, A.dtype)), validate=(len(w) <= 1))
        return
    elif which == 'symmetric_square':
        new = rep.symmetric_square()
        f = lambda M: _sym2_reference(M, n)
    elif which == 'gln_adjoint':
        new = rep.gln_adjoint()
        f = lambda M: lie.gln_adjoint(M)
    elif which == 'sln_adjoint':
        new = rep.sln_adjoint()
        f = lambda M: lie.sln_adjoint(M)
    elif which == 'subgroup':
        new = rep.subgroup(["ab", "bA"])
        for w, img in [("a", "ab"), ("b", "bA"), ("ab", "abbA"), ("A", "BA"), ("aB", "abaB"), ("", "")]:
            h.eq(f"subgroup[{w!r}]", new[w], rep[img])
        new2 = rep.subgroup({"x": "ab", "y": "B"}, compute_inverse=False)
        for w, img in [("x", "ab"), ("X", "BA"), ("xy", "abB"), ("Y", "b")]:
            h.eq(f"subgroup-noinv[{w!r}]", new2[w], rep[img])
        return
    elif which == 'astype_object':
        new = rep.astype(np.dtype('O')) if h.is_sym() else rep.astype('float64')
        f = lambda M: M
    elif which == 'projective':
        new = projective.ProjectiveRepresentation(rep)
        for w in ws:
            h.eq(f"projective[{w!r}]", new[w].proj_data, rep[w].T, validate=(len(w) <= 1))
        els = new.elements(["ab", "B"])
        h.eq("projective.elements", els.proj_data, np.array([rep["ab"].T, rep["B"].T]))
        return
    elif which == 'hyperbolic':
        new = hyperbolic.HyperbolicRepresentation(rep)
        for w in ws:
            h.eq(f"hyperbolic[{w!r}]", new[w].proj_data, rep[w].T, validate=(len(w) <= 1))
        return
    else:
        raise ValueError(which)
    for w in ws:
        h.eq(f"{which}[{w!r}]", new[w], f(rep[w]), validate=(len(w) <= 1))


def fox(h, n=2, maxlen=3, order='ab'):
    """fundamental formula of the Fox calculus and cocycle/coboundary annihilation"""
    A, B = _gens(h, n, 2)
    rep = representation.Representation()
    for nm in order:
        rep[nm] = (A if nm == 'a' else B).copy()
    I = np.zeros((n, n), dtype=A.dtype)
    for i in range(n):
        I[i, i] = 1
    for w in _words("abAB", maxlen):
        if not w:
            continue
        rhs = sum((rep._differential(w, g) @ (rep[g] - I) for g in "ab"), 0 * I)
        h.eq(f"fox[{w!r}]", rep[w] - I, rhs, validate=(len(w) <= 2))
    # matrix form: differential(w) @ coboundary_matrix() = I - rho(w)  (block orders of the two matrices must agree)
    for w in ("ab", "bA", "abAB"[:max(2, maxlen)]):
        h.eq(f"differential({w!r}) @ coboundary = I - rho(w)", rep.differential(w) @ rep.coboundary_matrix(), I - rep[w], validate=False)
    # differential(w) is the concatenation of the per-generator blocks, in generator order
    d = rep.differential("abA")
    h.eq("blocks", d, np.concatenate([rep._differential("abA", g) for g in order], axis=-1))


def cocycle(h, n=2):
    """relations that hold by construction are annihilated: cocycle_matrix() @ coboundary_matrix() == 0"""
    A = _gens(h, n, 1)[0]
    rep = representation.Representation(relations=["aA", "aaB", "abAB", "Baa"])
    rep["a"] = A.copy()
    rep["b"] = (A @ A).copy()
    Z = rep.cocycle_matrix() @ rep.coboundary_matrix()
    h.eq("cocycle @ coboundary", Z, 0 * Z)
    h.eq("shape", np.array(Z.shape), np.array([4 * n, n]))
