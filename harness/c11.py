"""C11 -- derived data stays coherent with primary data; queries do not move objects."""
import copy as _copy
import numpy as np
from geometry_tools import hyperbolic, projective
from symnp import transc, npmodels


def _interior(h, name, shape, n):
    x = h.arr(name, shape + (n,))
    for idx in np.ndindex(*shape):
        h.assume(h.dot(x[idx], x[idx]) < 1, 'interior point')
    return x


def _isometry(h, n, tag='T'):
    """a symbolic isometry from the polynomial constructors: rotation(theta) @ loxodromic(lam)"""
    th = transc.t_angle(h, tag + 'theta')
    lam = h.var(tag + 'lam')
    h.assume(lam > 0, 'loxodromic parameter > 0')
    return hyperbolic.Isometry.standard_rotation(th, dimension=n) @ hyperbolic.Isometry.standard_loxodromic(n, lam)


def _make(h, kind, shape, n):
    if kind == 'proj.Polygon':
        v = h.arr('v', shape + (3, n + 1))
        return projective.Polygon(v), (lambda: projective.Transformation(_invertible(h, n + 1)))
    pts = _interior(h, 'x', shape + ((3,) if kind == 'hyp.Polygon' else (2,) if kind == 'hyp.Segment' else (1,)), n)
    P = hyperbolic.Point(pts, model="klein").proj_data
    if kind == 'hyp.Polygon':
        return hyperbolic.Polygon(P), (lambda: _isometry(h, n))
    if kind == 'hyp.Segment':
        for idx in np.ndindex(*shape):
            d = pts[idx][0] - pts[idx][1]
            h.assume(_anynz(h, d), 'distinct endpoints')
        return hyperbolic.Segment(P), (lambda: _isometry(h, n))
    if kind == 'hyp.TangentVector':
        w = h.arr('w', shape + (n + 1,))
        return hyperbolic.TangentVector(hyperbolic.Point(P[..., 0, :]), w), (lambda: _isometry(h, n))
    raise ValueError(kind)


def _anynz(h, d):
    if h.is_sym():
        out = (d[0] != 0)
        for x in d[1:]:
            out = out | (x != 0)
        return out
    return np.abs(d).max() > 1e-3


def _invertible(h, d):
    M = h.arr('M', (d, d))
    h.assume((npmodels.det_sym(M) if M.dtype == object else np.linalg.det(M)) != 0, 'invertible')
    return M


def _fresh_like(h, obj, kind, n, tag):
    """a second object of the same class and unit shape (for item assignment / stacking)"""
    if kind == 'proj.Polygon':
        return projective.Polygon(h.arr(tag, (3, n + 1)))
    k = {'hyp.Polygon': 3, 'hyp.Segment': 2, 'hyp.TangentVector': 1}[kind]
    pts = _interior(h, tag, (k,), n)
    P = hyperbolic.Point(pts, model="klein").proj_data
    if kind == 'hyp.Polygon':
        return hyperbolic.Polygon(P)
    if kind == 'hyp.Segment':
        h.assume(_anynz(h, pts[0] - pts[1]), 'distinct endpoints')
        return hyperbolic.Segment(P)
    return hyperbolic.TangentVector(hyperbolic.Point(P[0]), h.arr(tag + 'w', (n + 1,)))


def _apply_op(h, obj, op, kind, n, mkT, k):
    cls = type(obj)
    if op == 'copy':
        return _copy.copy(obj)
    if op == 'reconstruct':
        return cls(obj)
    if op == 'apply':
        return mkT() @ obj
    if op == 'reshape':
        return obj.reshape(obj.shape[::-1] if len(obj.shape) > 1 else ((1,) + obj.shape))
    if op == 'flatten':
        return obj.flatten_to_unit()
    if op == 'index':
        return obj[0] if len(obj.shape) else obj
    if op == 'index_units':
        # an index that reaches into the unit axes: reverse the orientation of every unit
        if kind == 'hyp.TangentVector':
            return obj
        return obj[..., ::-1, :]
    if op == 'setitem':
        if not len(obj.shape):
            return obj
        obj[0] = _fresh_like(h, obj, kind, n, f'y{k}')
        return obj
    if op == 'stack':
        other = _fresh_like(h, obj, kind, n, f'z{k}')
        base = obj if not len(obj.shape) else obj.flatten_to_unit()[0]
        return cls([base, other])
    if op == 'combine':
        other = _fresh_like(h, obj, kind, n, f'u{k}')
        return cls.combine([obj, other])
    if op == 'astype':
        return obj.astype(np.dtype('O') if h.is_sym() else 'float64')
    raise ValueError(op)


def coherent(h, kind='proj.Polygon', n=2, shape=(), ops=('copy',)):
    """after the history `ops`, stored derived data == derived data recomputed from the primary data (projectively)"""
    obj, mkT = _make(h, kind, shape, n)
    for k, op in enumerate(ops):
        obj = _apply_op(h, obj, op, kind, n, mkT, k)
    cls = type(obj)
    fresh = cls(obj.proj_data.copy())
    h.holds("class preserved", cls.__name__ == kind.split('.')[1])
    h.eq("aux shape", np.array(obj.aux_data.shape), np.array(fresh.aux_data.shape))
    h.proj_eq(f"aux coherent after {'/'.join(ops)}", obj.aux_data, fresh.aux_data, nonzero=False)
    h.eq("composite shape consistent", np.array(obj.aux_data.shape[:len(obj.shape)]), np.array(obj.shape))


def ideal_queries(h, n=2, query='hyperboloid'):
    """queries on ideal points / boundary objects (exactly lightlike representatives) do not move or destroy them"""
    t = h.var('t')
    lam = h.var('lam')
    h.assume(lam != 0, 'scale != 0')
    c, s = (1 - t * t) / (1 + t * t), 2 * t / (1 + t * t)
    v = np.array([lam, lam * c, lam * s] + [0 * lam] * (n - 2), dtype=object if h.is_sym() else float)
    y = _interior(h, 'y', (), n)
    p = hyperbolic.IdealPoint(v.copy())
    q = hyperbolic.Point(y, model="klein")
    before = p.proj_data.copy()
    if query == 'hyperboloid':
        p.coords('hyperboloid')
        p.hyperboloid_coords()
    elif query == 'klein':
        p.coords('klein')
        p.coords('poincare')
    elif query == 'segment':
        sgm = hyperbolic.Segment(q, p)
        sb, ab = sgm.proj_data.copy(), sgm.aux_data.copy()
        sgm.get_endpoints().coords('hyperboloid')
        hyperbolic.Point(sgm.aux_data).coords('hyperboloid')
        h.proj_eq("segment endpoints unchanged", sgm.proj_data, sb)
        h.proj_eq("segment ideal endpoints unchanged", sgm.aux_data, ab)
    elif query == 'geodesic':
        g = hyperbolic.Geodesic(hyperbolic.IdealPoint(v.copy()), hyperbolic.IdealPoint(np.array([1, -1] + [0] * (n - 1), dtype=v.dtype)))
        gb = g.proj_data.copy()
        g.get_endpoints().coords('hyperboloid')
        g.ideal_basis_coords('klein')
        h.proj_eq("geodesic endpoints unchanged", g.proj_data, gb)
    h.proj_eq("ideal point unchanged (projectively, still non-zero)", p.proj_data, before)


def queries(h, kind='hyp.Point', n=2, query='coords:poincare'):
    """read-only queries leave the represented point(s) and the caller's arrays unchanged"""
    x = _interior(h, 'x', (), n)
    y = _interior(h, 'y', (), n)
    h.assume(_anynz(h, x - y), 'distinct points')
    x0, y0 = x.copy(), y.copy()
    p = hyperbolic.Point(x, model="klein")
    q = hyperbolic.Point(y, model="klein")
    caller_p = np.array(p.proj_data)          # what a caller could have passed in
    p2 = hyperbolic.Point(caller_p)
    before = p2.proj_data.copy()
    kind_q, _, arg = query.partition(':')
    if kind_q == 'coords':
        p2.coords(arg)
    elif kind_q == 'distance':
        p2.distance(q)
    elif kind_q == 'origin_to':
        h.stub('kernel', mode='flag')
        p2.origin_to()
    elif kind_q == 'tangent':
        p2.unit_tangent_towards(q)
    elif kind_q == 'segment':
        s = hyperbolic.Segment(p2, q)
        sb = s.proj_data.copy()
        ab = s.aux_data.copy()
        s.sphere_parameters(arg)
        s.endpoint_coords(arg)
        s.ideal_endpoint_coords(arg)
        h.proj_eq("segment endpoints unchanged", s.proj_data, sb)
        h.proj_eq("segment ideal endpoints unchanged", s.aux_data, ab, nonzero=False)
    elif kind_q == 'tv':
        w = h.arr('w', (n + 1,))
        w0 = w.copy()
        tv = hyperbolic.TangentVector(p2, w)
        tb, ta = tv.proj_data.copy(), tv.aux_data.copy()
        tv.normalized()
        tv.angle(hyperbolic.TangentVector(p2, w + p2.proj_data))
        h.stub('kernel', mode='flag')
        tv.origin_to()
        h.proj_eq("tangent base point unchanged", tv.proj_data[0], tb[0])
        h.eq("tangent vector data unchanged", tv.proj_data[1], tb[1])
        # normalized() rescales the stored projected vector in place; the property speaks of the represented geometry:
        # the direction (up to a positive factor) must be unchanged
        a, b = tv.aux_data[1], ta[1]
        cross = [a[i] * b[j] - a[j] * b[i] for i in range(n + 1) for j in range(i + 1, n + 1)]
        h.eq("projected direction unchanged (parallel)", np.array(cross, dtype=object if h.is_sym() else float), 0, validate=False)
        J = np.diag([-1] + [1] * n)
        h.assume(b @ J @ b > 0, 'non-zero tangent vector')
        h.holds("projected direction unchanged (same sense)", a @ J @ b > 0)
        h.eq("caller's vector array unchanged", w, w0)
    h.proj_eq("point unchanged (projectively)", p2.proj_data, before)
    h.eq("caller's array unchanged", caller_p, before)
    h.eq("caller's coordinate arrays unchanged", np.concatenate([x, y]), np.concatenate([x0, y0]))
    h.proj_eq("other point unchanged", q.proj_data, hyperbolic.Point(y0, model="klein").proj_data)
