"""C14 -- circle and sphere parameters describe the true geodesic, segment and horosphere."""
import math
from fractions import Fraction
import numpy as np
from geometry_tools import hyperbolic
from symnp import npmodels, transc


def _det(M):
    return npmodels.det_sym(M) if M.dtype == object else np.linalg.det(M)


def _interior(h, name, n):
    x = h.arr(name, (n,))
    h.assume(h.dot(x, x) < 1, 'interior point')
    return x


def _ideal(h, name, n=2):
    """an ideal point through the rational parametrisation of the sphere (every point except one pole)"""
    ps = [h.var(f"{name}{i}") for i in range(n - 1)]
    s = sum((p * p for p in ps), 0)
    d = s + 1
    return np.array([2 * p / d for p in ps] + [(s - 1) / d], dtype=object if h.is_sym() else float)


def _anynz(h, d):
    if h.is_sym():
        out = (d[0] != 0)
        for x in d[1:]:
            out = out | (x != 0)
        return out
    return np.abs(d).max() > 1e-3


def _dirs(h, thetas):
    """plane directions of the reported angles"""
    out = []
    for th in np.asarray(thetas, dtype=object if h.is_sym() else float).flat:
        if h.is_sym():
            out.append((th.x, th.y, getattr(th, 'deg', False)))
        else:
            out.append((math.cos(th), math.sin(th), None))
    return out


def _model_arg(model, as_string):
    return model if as_string else {'poincare': hyperbolic.Model.POINCARE, 'halfspace': hyperbolic.Model.HALFSPACE}[model]


def _check_circle(h, tag, centre, radius, thetas, ends, model, degrees):
    """ends: the two endpoints in model coordinates (2 x 2)"""
    for k in range(2):
        dv = ends[k] - centre
        h.eq(f"{tag}: endpoint {k} on the circle", h.dot(dv, dv), radius * radius, validate=False)
    if model == 'poincare':
        h.eq(f"{tag}: orthogonal to the unit circle", h.dot(centre, centre), 1 + radius * radius, validate=False)
    else:
        h.eq(f"{tag}: centre on the boundary", centre[-1], 0, validate=False)
    if not h.is_sym():
        th = np.asarray(thetas, dtype=float) * (math.pi / 180 if degrees else 1)
        dirs = [(math.cos(t), math.sin(t)) for t in th]
    else:
        dirs = []
        for t in np.asarray(thetas, dtype=object).flat:
            h.holds(f"{tag}: unit of the angles", bool(t.deg) == bool(degrees))
            dirs.append((t.x, t.y))
    o0, o1 = dirs
    e = [ends[k] - centre for k in range(2)]

    def same(o, v):
        c = o[0] * v[1] - o[1] * v[0]
        d = o[0] * v[0] + o[1] * v[1]
        return ((c == 0) & (d > 0)) if h.is_sym() else (abs(c) < 1e-7 * (1 + abs(d)) and d > 0)
    a = same(o0, e[0]) & same(o1, e[1]) if h.is_sym() else (same(o0, e[0]) and same(o1, e[1]))
    b = same(o0, e[1]) & same(o1, e[0]) if h.is_sym() else (same(o0, e[1]) and same(o1, e[0]))
    h.holds(f"{tag}: the angles point from the centre to the two endpoints", (a | b) if h.is_sym() else (a or b))
    cr = o0[0] * o1[1] - o0[1] * o1[0]
    if model == 'poincare':
        h.holds(f"{tag}: counter-clockwise arc is the one inside the disk (shorter than pi)", cr > 0)
    else:
        # upper half-plane, centre on the boundary: the counter-clockwise arc from the right endpoint to the left one lies above the boundary
        ok = ((cr > 0) | ((cr == 0) & (o0[0] > 0) & (o1[0] < 0))) if h.is_sym() else (cr > 1e-9 or (abs(cr) <= 1e-9 and o0[0] > 0 and o1[0] < 0))
        h.holds(f"{tag}: counter-clockwise arc runs right to left (above the boundary)", ok)


def segment_circle(h, model='poincare', degrees=True, as_string=True, geodesic=False):
    n = 2
    x, y = _interior(h, 'x', n), _interior(h, 'y', n)
    h.assume(_anynz(h, x - y), 'distinct endpoints')
    p, q = hyperbolic.Point(x.copy(), model="klein"), hyperbolic.Point(y.copy(), model="klein")
    S = hyperbolic.Segment(p, q)
    J = np.diag([-1, 1, 1])
    for k in range(2):
        v = S.aux_data[k]
        h.eq(f"ideal endpoint {k} lightlike", v @ J @ v, 0)
        M = np.array([S.proj_data[0], S.proj_data[1], v], dtype=object if h.is_sym() else float)
        h.eq(f"ideal endpoint {k} on the Klein line through the endpoints", _det(M), 0)
    h.holds("the two ideal endpoints are distinct", _anynz(h, np.array([S.aux_data[0][i] * S.aux_data[1][j] - S.aux_data[0][j] * S.aux_data[1][i] for i in range(3) for j in range(i + 1, 3)], dtype=object if h.is_sym() else float)))
    cross = x[0] * y[1] - x[1] * y[0]
    if model == 'poincare':
        h.assume(cross != 0 if h.is_sym() else abs(cross) > 1e-2, 'the geodesic does not pass through the origin (finite radius)')
    obj = S.geodesic() if geodesic else S
    ends = obj.ideal_basis_coords(model) if geodesic else obj.endpoint_coords(model)
    if model == 'halfspace':
        dx = ends[0][0] - ends[1][0]
        h.assume(dx != 0 if h.is_sym() else abs(dx) > 1e-2, 'not a vertical line (finite radius)')
    c, r, th = obj.circle_parameters(degrees=degrees, model=_model_arg(model, as_string))
    _check_circle(h, "geodesic" if geodesic else "segment", c, r, th, ends, model, degrees)


def segment_ideal(h, n=2):
    """ideal endpoints of a segment: lightlike, distinct, on the Klein line through the endpoints (every path of the quadratic formula)"""
    x, y = _interior(h, 'x', n), _interior(h, 'y', n)
    h.assume(_anynz(h, x - y), 'distinct endpoints')
    p, q = hyperbolic.Point(x.copy(), model="klein"), hyperbolic.Point(y.copy(), model="klein")
    mk = h.mark()
    S = hyperbolic.Segment(p, q)
    J = np.diag([-1] + [1] * n)
    for k in range(2):
        v = S.aux_data[k]
        h.eq(f"ideal endpoint {k} lightlike", v @ J @ v, 0)
        # in the span of the two endpoints: all 3x3 minors of [p; q; v] vanish
        M = np.array([S.proj_data[0], S.proj_data[1], v], dtype=object if h.is_sym() else float)
        import itertools
        mins = [_det(M[:, list(c)]) for c in itertools.combinations(range(n + 1), 3)]
        h.eq(f"ideal endpoint {k} on the Klein line through the endpoints", np.array(mins, dtype=object if h.is_sym() else float), 0, validate=False)
        h.holds(f"ideal endpoint {k} is a non-zero vector", _anynz(h, v))
    cr = [S.aux_data[0][i] * S.aux_data[1][j] - S.aux_data[0][j] * S.aux_data[1][i] for i in range(n + 1) for j in range(i + 1, n + 1)]
    h.holds("the two ideal endpoints are distinct", _anynz(h, np.array(cr, dtype=object if h.is_sym() else float)))
    h.defined("finite (no division by zero, real square root)", mk)


def geodesic_from_ideal(h, model='poincare', degrees=True, as_string=True, a_fixed=None):
    """a geodesic given by two symbolic ideal endpoints (rational parametrisation of the circle)"""
    a, b = _ideal(h, 'a', 2), _ideal(h, 'b', 2)
    if a_fixed is not None:
        # slice: first endpoint at a concrete rational point of the circle
        t = Fraction(a_fixed) if h.is_sym() else float(Fraction(a_fixed))
        a = np.array([2 * t / (t * t + 1), (t * t - 1) / (t * t + 1)], dtype=object if h.is_sym() else float)
        if h.is_sym():
            a = np.array([h.const(v) for v in a], dtype=object)
    cr = a[0] * b[1] - a[1] * b[0]
    h.assume(_anynz(h, a - b), 'distinct ideal endpoints')
    if model == 'poincare':
        h.assume(cr != 0 if h.is_sym() else abs(cr) > 1e-2, 'not a diameter (finite radius)')
    else:
        for v in (a, b):
            h.assume(v[0] != 1 if h.is_sym() else abs(v[0] - 1) > 1e-2, 'away from the half-space point at infinity')
    one = 1 + 0 * a[0]
    G = hyperbolic.Geodesic(hyperbolic.IdealPoint(np.concatenate([[one], a])), hyperbolic.IdealPoint(np.concatenate([[one], b])))
    ends = G.ideal_basis_coords(model)
    if model == 'halfspace':
        dx = ends[0][0] - ends[1][0]
        h.assume(dx != 0 if h.is_sym() else abs(dx) > 1e-2, 'not a vertical line')
    c, r, th = G.circle_parameters(degrees=degrees, model=_model_arg(model, as_string))
    _check_circle(h, "geodesic", c, r, th, ends, model, degrees)


def horosphere(h, model='poincare', n=2):
    c = _ideal(h, 'c', n)
    x = _interior(h, 'x', n)
    if model == 'halfspace':
        h.assume(c[0] != 1 if h.is_sym() else abs(c[0] - 1) > 1e-2, 'centre away from the half-space point at infinity')
    H = hyperbolic.Horosphere(hyperbolic.IdealPoint(np.concatenate([[1 + 0 * c[0]], c])), hyperbolic.Point(x.copy(), model="klein"))
    ctr, rad = H.sphere_parameters(model=model)
    ic = hyperbolic.Point(H.center).coords(model)
    rc = hyperbolic.Point(H.reference).coords(model)
    dv = rc - ctr
    h.eq("reference point on the sphere", h.dot(dv, dv), rad * rad, validate=False)
    dv = ic - ctr
    h.eq("ideal centre on the sphere", h.dot(dv, dv), rad * rad, validate=False)
    if model == 'poincare':
        h.eq("tangent to the unit sphere from inside: |centre| = 1 - r", h.dot(ctr, ctr), (1 - rad) * (1 - rad), validate=False)
        h.holds("radius in (0, 1)", (rad > 0) & (rad < 1) if h.is_sym() else (0 < rad < 1))
    else:
        h.eq("tangent to the boundary: height of the centre = r", ctr[-1], rad, validate=False)
        h.holds("radius positive", rad > 0)


def subspace_sphere(h, n=3, k=3, model='poincare', which='sphere_parameters', nfixed=0):
    """the sphere reported for a totally geodesic subspace with k ideal basis points contains those points"""
    fixed = [np.array([1, 0, 1] + [0] * (n - 2)), np.array([1, 0, 0, 1] + [0] * (n - 3))]
    pts = [(fixed[i] if (i < nfixed) else np.concatenate([[1], _ideal(h, f"p{i}", n)])) for i in range(k)]
    P = np.array(pts, dtype=object if h.is_sym() else float)
    # general position: the ideal points are linearly independent
    if k == n + 1 or k == n:
        mins = [_det(P[:, list(cols)]) for cols in __import__('itertools').combinations(range(n + 1), k)]
        h.assume(mins[0] != 0 if h.is_sym() else abs(mins[0]) > 1e-3, 'ideal points in general position')
    S = hyperbolic.Subspace(P.copy())
    if which == 'boundary':
        ctr, rad = S.boundary_sphere_parameters()
        coords = S.ideal_basis_coords(model='halfspace')[..., :-1]
    else:
        ctr, rad = S.sphere_parameters(model=model)
        coords = S.ideal_basis_coords(model=model)
    for i in range(k):
        dv = coords[i] - ctr
        h.eq(f"ideal point {i} on the reported sphere", h.dot(dv, dv), rad * rad, validate=False)
