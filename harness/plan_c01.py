from .registry import inst
from .c01 import MODELS


def plan(tier):
    dims = [1, 2] if tier == 'quick' else [1, 2, 3, 4]
    I = []
    for n in dims:
        for m1 in MODELS:
            for m2 in MODELS:
                I.append(inst(f"roundtrip[n={n},{m1}->{m2}]", 'harness.c01', 'roundtrip', dict(n=n, m1=m1, m2=m2), weight=n))
    if tier == 'quick':
        for m1, m2 in [("halfspace", "klein"), ("klein", "halfspace"), ("halfspace", "poincare"), ("poincare", "hyperboloid"), ("hyperboloid", "halfspace")]:
            I.append(inst(f"roundtrip[n=3,{m1}->{m2}]", 'harness.c01', 'roundtrip', dict(n=3, m1=m1, m2=m2), weight=4))
    # the reported distance does not depend on which homogeneous representatives (either sheet) the points carry
    for n in ([1, 2] if tier == 'quick' else [1, 2, 3]):
        I.append(inst(f"distance-any-representative[n={n}]", 'harness.c12', 'distance', dict(n=n), weight=4, timeout_s=600))
    # composite shapes and ideal points
    for shape in ([(1,), (2,)] if tier == 'quick' else [(1,), (2,), (2, 1), (1, 2)]):
        for m1, m2 in [("poincare", "halfspace"), ("halfspace", "klein"), ("hyperboloid", "poincare")]:
            I.append(inst(f"roundtrip[n=2,shape={shape},{m1}->{m2}]", 'harness.c01', 'roundtrip', dict(n=2, m1=m1, m2=m2, shape=shape), weight=3))
    for n in ([2] if tier == 'quick' else [2, 3]):
        for m1 in MODELS:
            for m2 in MODELS:
                I.append(inst(f"ideal-roundtrip[n={n},{m1}->{m2}]", 'harness.c01', 'roundtrip', dict(n=n, m1=m1, m2=m2, ideal=True), weight=n))
    for n in ([1, 2] if tier == 'quick' else [1, 2, 3]):
        for model in ("poincare", "halfspace", "hyperboloid", "klein"):
            I.append(inst(f"metric[n={n},{model}]", 'harness.c01', 'metric', dict(n=n, model=model), weight=4 * n, timeout_s=600))
    for n in ([1, 2] if tier == 'quick' else [1, 2, 3]):
        I.append(inst(f"laws-basic[n={n}]", 'harness.c01', 'metric_laws', dict(n=n, law='basic'), weight=5 * n, timeout_s=600))
    if tier != 'quick':
        for order in range(6):
            I.append(inst(f"triangle[n=1,order={order}]", 'harness.c01', 'metric_laws', dict(n=1, law='triangle', order=order), weight=20, timeout_s=900))
    # binary64 question (engine E1-fp): can d(p, p) be NaN?  H^1; solver portfolio under a hard cap (inconclusive if it does not finish)
    I.append(inst("fp-d(x,x)-never-NaN[n=1]", 'symnp.fp', 'distance_self_nan', dict(n=1, bound=0.5), kind='fp',
                  opts=dict(timeout_ms=(150000 if tier == 'quick' else 1500000)), timeout_s=(200 if tier == 'quick' else 1600), weight=50))
    return dict(
        instances=I,
        explanation=("bounded symbolic verification: hyperbolic.Point.coords / distance and the chart maps are executed symbolically "
                     "(engine symnp: exact rational-function normal forms over symbolic Klein coordinates, sqrt atoms, path forks at abs/sign "
                     "tests); every goal is either closed by the exact normal form or decided by z3 (QF_NRA) as unsat over ALL real inputs "
                     "satisfying the precondition in the stated dimension; each path has a solver-produced reachability witness on which the "
                     "real float code is run and compared (translator validation)"),
        bounds=dict(dimensions=dims, composite_shapes="() (1,) (2,)" + ("" if tier == 'quick' else " (2,1) (1,2)"),
                    models=MODELS, metric_law_dims="basic laws n<=%d, triangle inequality n=1 (thorough tier)" % (2 if tier == 'quick' else 3)),
        outside=["half-space point at infinity", "dimensions beyond the listed ones", "triangle inequality for n>=2",
                 "floating-point rounding (real-number semantics) except the separate d(x,x) FP query"],
        assumptions=["interior points: |x|^2 < 1 (Klein coordinates); ideal points: |x|^2 = 1, x != e_1 when the half-space model is involved",
                     "real-number semantics for +,-,*,/,sqrt,abs; arccosh modelled as ln(u+sqrt(u^2-1)) with obligation u>=1"],
    )
