from .registry import inst
from .c03 import CLASSES


def plan(tier):
    q = tier == 'quick'
    I = []
    for cls in CLASSES:
        for d in ([3] if q else [2, 3, 4]):
            if cls == 'hyp.TangentVector' and d == 4:
                continue
            big = d == 4 or cls in ('hyp.TangentVector',)
            I.append(inst(f"action[{cls},d={d}]", 'harness.c03', 'action', dict(cls=cls, d=d), weight=(20 if big else 2), timeout_s=1200,
                          opts=dict(max_vars=64)))
    for cls in ['proj.Point', 'proj.Polygon', 'proj.Transformation', 'hyp.Point', 'hyp.Segment', 'hyp.Isometry']:
        d = 2 if cls != 'proj.Polygon' else 3
        I.append(inst(f"action[{cls},d={d},composite(2,)]", 'harness.c03', 'action', dict(cls=cls, d=d, shape=(2,)), weight=5, timeout_s=900, opts=dict(max_vars=64)))
        I.append(inst(f"action[{cls},d={d},composite(2,) x transformations(2,)]", 'harness.c03', 'action', dict(cls=cls, d=d, shape=(2,), tshape=(2,)),
                      weight=8, timeout_s=900, opts=dict(max_vars=80)))
    for cls in ['proj.Point', 'hyp.Point']:
        I.append(inst(f"used-operands[{cls},d=2]", 'harness.c03', 'used_operands', dict(cls=cls, d=2 if cls != 'proj.Polygon' else 3), weight=10, timeout_s=900, opts=dict(max_vars=64)))
    for cls in ['proj.Point', 'hyp.Point']:
        for shape in [(1,), (2, 1), (1, 2)]:
            I.append(inst(f"action[{cls},d=2,composite{shape}]", 'harness.c03', 'action', dict(cls=cls, d=2, shape=shape), weight=5, timeout_s=900, opts=dict(max_vars=64)))
        I.append(inst(f"action[{cls},d=2,composite(2,) x transformations(1,)]", 'harness.c03', 'action', dict(cls=cls, d=2, shape=(2,), tshape=(1,)), weight=5, timeout_s=900, opts=dict(max_vars=64)))
    for cls in ['proj.Point', 'proj.PointPair', 'proj.Transformation', 'proj.Subspace']:
        I.append(inst(f"action[{cls},d=2,complex]", 'harness.c03', 'action', dict(cls=cls, d=2, complex_=True), weight=4, timeout_s=900))
    if not q:
        I.append(inst("action[proj.Point,d=3,complex]", 'harness.c03', 'action', dict(cls='proj.Point', d=3, complex_=True), weight=60, timeout_s=1500, opts=dict(max_vars=64)))
    for hyp in (False, True):
        I.append(inst(f"representation-boundary[d=2,hyp={hyp}]", 'harness.c03', 'rep_boundary', dict(d=2, hyp=hyp, maxlen=2 if q else 3), weight=10, timeout_s=1200))
        if not q:
            I.append(inst(f"representation-boundary[d=3,hyp={hyp}]", 'harness.c03', 'rep_boundary', dict(d=3, hyp=hyp, maxlen=2), weight=30, timeout_s=1800))
    return dict(
        instances=I,
        explanation=("bounded symbolic verification: Transformation.apply / inv / __matmul__ (and the Isometry, ProjectiveRepresentation, "
                     "HyperbolicRepresentation wrappers) executed on symbolic invertible matrices A, B and symbolic objects of every class; "
                     "(A@B)@X vs A@(B@X), identity@X vs X, A.inv()@(A@X) vs X compared on primary, auxiliary and dual data as exact rational-function "
                     "identities (normal form / z3), plus result type and composite shape; holds for ALL invertible A, B and all object data in the stated dimension"),
        bounds=dict(ambient_dimension="3 (quick); 2,3,4 (thorough)", classes=CLASSES, composite_shapes="(), (2,) objects for all classes, (1,), (2,1), (1,2) for points; (), (1,), (2,) transformations",
                    complex="projective classes at d=2 (d=3 Point in thorough)", representation_words="<=2 (quick) / <=3 (thorough) over a,b,A,B"),
        outside=["ConvexPolygon (scipy linprog / ConvexHull)", "dimensions > 4", "composite shapes beyond (2,)"],
        assumptions=["A, B invertible (det != 0)", "hyperbolic segments / polygons / tangent vectors have interior base points (|x|^2 < 1) so that the ideal-endpoint square roots are real"],
    )
