from .registry import inst
from .c17 import MAPS


def plan(tier):
    I = []
    heavy = {'gln_adjoint3', 'sln_adjoint3'}
    for w in MAPS:
        if w in heavy and tier == 'quick':
            continue
        I.append(inst(f"hom[{w}]", 'harness.c17', 'homomorphism', dict(which=w), timeout_s=600, weight=20 if w in heavy else 1))
    stackable = [w for w, (f, n, c, needs_inv) in MAPS.items() if w not in ('gln_adjoint3', 'sln_adjoint3', 'hom.gln_adjoint')]
    for w in stackable:
        for shape in ([(2,)] if tier == 'quick' else [(1,), (2,), (2, 1)]):
            if tier == 'quick' and w in ('sl2_irrep6',):
                continue
            I.append(inst(f"hom[{w},shape={shape}]", 'harness.c17', 'homomorphism', dict(which=w, shape=shape), timeout_s=600, weight=3))
    for n in ([2, 3, 4] if tier == 'quick' else [2, 3, 4, 5, 6]):
        for chart in (0, 1):
            I.append(inst(f"det-irrep[n={n},chart={chart}]", 'harness.c17', 'irrep_det', dict(n=n, chart=chart)))
    for chart in (0, 1):
        I.append(inst(f"so21-form[chart={chart}]", 'harness.c17', 'so21_form', dict(chart=chart)))
        I.append(inst(f"so31-form[chart={chart}]", 'harness.c17', 'so31_form', dict(chart=chart), weight=4))
    for chart in (0, 1):
        I.append(inst(f"o_to_pgl-roundtrip[det=1,chart={chart}]", 'harness.c17', 'o_to_pgl_roundtrip', dict(chart=chart, sign=1), weight=20, timeout_s=900))
        I.append(inst(f"o_to_pgl-roundtrip[det=-1,chart={chart}]", 'harness.c17', 'o_to_pgl_roundtrip', dict(chart=chart, sign=-1), weight=20, timeout_s=900))
    for n in ([2] if tier == 'quick' else [2, 3]):
        I.append(inst(f"killing[n={n}]", 'harness.c17', 'killing', dict(n=n), weight=10 * n, timeout_s=600))
    return dict(
        instances=I,
        explanation=("bounded symbolic verification: lie.sl2_irrep / sl2_to_so21 / gln_adjoint / sln_adjoint / slc_to_slr / sl2c_to_so31 / "
                     "block_include and the lie.hom wrappers are executed on matrices whose entries are independent symbols (reals, or re/im "
                     "pairs); f(AB) = f(A)f(B), f(I) = I, determinant / invariant-form identities become rational-function identities that are "
                     "decided exactly (normal form; z3 for residuals); holds for ALL matrices of the stated size; stacks (2,) etc. compared unit by unit"),
        bounds=dict(sl2_irrep_dims="2..6", adjoint_n="2 (quick) / 2,3 (thorough)", stack_shapes="(2,) quick; (1,),(2,),(2,1) thorough",
                    det_one_charts="a != 0 with d=(1+bc)/a, and a = 0 with c=-1/b (together: all of SL(2))"),
        outside=["o_to_pgl on elements of O(2,1) that are not images of 2x2 matrices of determinant +-1 with non-vanishing entries (the round trip is checked for determinant 1 and -1; multiplicativity up to sign follows from it and the homomorphism goals of sl2_to_so21 only there)", "adjoint for n >= 4", "floating-point rounding"],
        assumptions=["invertible matrices where an inverse is taken (det != 0)", "real-number / exact complex semantics"],
    )
