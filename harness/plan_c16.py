from .registry import inst


def plan(tier):
    q = tier == 'quick'
    I = []
    dims = [1, 2, 3] if q else [1, 2, 3, 4, 5]
    for dim in dims:
        for chart in range(dim + 1):
            for cplx in (False, True):
                if cplx and dim > (2 if q else 3):
                    continue
                I.append(inst(f"chart-roundtrip[dim={dim},chart={chart},complex={cplx}]", 'harness.c16', 'chart_roundtrip',
                              dict(dim=dim, chart=chart, complex_=cplx), weight=dim, timeout_s=600))
    for cplx in (False, True):
        for cv in (False, True):
            I.append(inst(f"chart-roundtrip[dim=2,chart=1,shape=(2,),complex={cplx},column_vectors={cv}]", 'harness.c16', 'chart_roundtrip',
                          dict(dim=2, chart=1, complex_=cplx, column_vectors=cv, shape=(2,)), weight=3, timeout_s=600))
    for dim in ([1, 2] if q else [1, 2, 3]):
        for chart in range(dim + 1):
            for cplx in (False, True):
                I.append(inst(f"outside-chart[dim={dim},chart={chart},complex={cplx}]", 'harness.c16', 'outside_chart', dict(dim=dim, chart=chart, complex_=cplx), weight=2))
    for dim in ([1, 2, 3] if q else [1, 2, 3, 4]):
        for chart in range(dim + 1):
            for cv in (True, False):
                I.append(inst(f"affine-maps[dim={dim},chart={chart},column_vectors={cv}]", 'harness.c16', 'affine_maps', dict(dim=dim, chart=chart, column_vectors=cv), weight=dim))
    I.append(inst("intersect[RP2 line^line]", 'harness.c16', 'intersect', dict(n=3, k1=2, k2=2), weight=10, timeout_s=900))
    I.append(inst("intersect[RP2 line^line, pairwise, composite]", 'harness.c16', 'intersect', dict(n=3, k1=2, k2=2, broadcast="pairwise", composite=True), weight=10, timeout_s=900))
    I.append(inst("intersect[RP2 line^line, elementwise, composite]", 'harness.c16', 'intersect', dict(n=3, k1=2, k2=2, composite=True), weight=10, timeout_s=900))
    if not q:
        I.append(inst("intersect[RP3 plane^plane]", 'harness.c16', 'intersect', dict(n=4, k1=3, k2=3), weight=300, timeout_s=1500, opts=dict(max_vars=64)))
        I.append(inst("intersect[RP3 line^plane]", 'harness.c16', 'intersect', dict(n=4, k1=2, k2=3), weight=200, timeout_s=1500, opts=dict(max_vars=64)))
    for perm in range(6):
        if q and perm not in (0, 3):
            continue
        I.append(inst(f"eigen-complex-pair[eigenvalue-order={perm}]", 'harness.c16', 'eigen_complex', {}, opts=dict(fix={"eig_perm": perm}), weight=60, timeout_s=1500))
    for (a, b) in ([(0, 1), (1, 0)] if q else [(0, 0), (0, 1), (1, 0), (1, 1)]):
        for r in ('none', 'shared'):
            I.append(inst(f"eigen-composite[request={r},eigenvalue-orders=({a},{b})]", 'harness.c16', 'eigen_composite', dict(d=2, request=r),
                          opts=dict(fix={"eig_perm0": a, "eig_perm1": b}, max_vars=64), weight=10, timeout_s=900))
    for d in ([2] if q else [2, 3]):
        for w in ('eigenvector', 'any', 'missing', 'diagonalize'):
            I.append(inst(f"eigen[{w},d={d}]", 'harness.c16', 'eigen', dict(d=d, which=w), weight=10 * d * d, timeout_s=1500, opts=dict(max_paths=2048)))
    return dict(
        instances=I,
        explanation=("bounded symbolic verification: projective.projective_coords / affine_coords / Point.in_affine_chart / affine_linear_map / "
                     "affine_translation / Subspace.intersect executed on symbolic real and complex (re, im) coordinates; the chart round trip under an "
                     "arbitrary non-zero rescaling, 'GeometryError iff chart coordinate == 0' (path analysis: every path of affine_coords is classified), the "
                     "chart action of the affine maps, and membership / dimension of intersections (vanishing minors) are decided exactly (normal form / z3). "
                     "Subspace.intersect's SVD null-space call is a nondeterministic stub (arbitrary basis K0*T, T fresh invertible)"),
        bounds=dict(dimensions=dims, complex_dimensions="<=2 (quick) / <=3 (thorough)", charts="all", layouts="row and column vectors; composite shape (2,)",
                    intersect="RP^2 line/line elementwise + pairwise (quick); RP^3 plane/plane, line/plane (thorough)"),
        outside=["hyperplane_coordinate_transform / find_definite_isometry (np.linalg.qr has no model)", "eigenvector / diagonalize for composites beyond two 2x2 units",
                 "automatic chart selection (chart_index=None)"],
        assumptions=["rescaling factor != 0", "spanning sets linearly independent and subspaces transverse (documented precondition of intersect)"],
    )
