import itertools
from .registry import inst


def _mat(r, labels):
    """symmetric Coxeter matrix from the upper-triangular label list (0 = infinity)"""
    M = [[1] * r for _ in range(r)]
    it = iter(labels)
    for i in range(r):
        for j in range(i + 1, r):
            M[i][j] = M[j][i] = next(it)
    return M


def family(rank, labelset):
    npairs = rank * (rank - 1) // 2
    return [_mat(rank, ls) for ls in itertools.product(labelset, repeat=npairs)]


def _batches(name, mats, L, per=8, weight=5, timeout_s=900):
    out = []
    for i in range(0, len(mats), per):
        out.append(inst(f"{name}[batch {i // per}]", 'smtbmc.c07', 'run', dict(matrices=mats[i:i + per], L=L), kind='smtbmc', weight=weight, timeout_s=timeout_s))
    return out


RANK5 = [[3, 2, 2, 2, 3, 2, 2, 3, 2, 3], [3, 2, 2, 2, 3, 2, 2, 4, 2, 3], [0, 2, 2, 2, 3, 2, 2, 3, 2, 3], [3, 3, 2, 2, 3, 2, 2, 3, 2, 3], [4, 2, 2, 2, 3, 2, 2, 3, 2, 4],
         [2, 2, 2, 2, 2, 2, 2, 2, 2, 2], [3, 2, 2, 3, 3, 2, 2, 3, 2, 3], [5, 2, 2, 2, 3, 2, 2, 3, 2, 3], [0, 0, 2, 2, 3, 2, 2, 3, 2, 0], [3, 2, 2, 2, 3, 3, 2, 3, 2, 3]]


def plan(tier):
    q = tier == 'quick'
    I = []
    if q:
        I += _batches("rank2", family(2, [2, 3, 4, 5, 7, 0]), 8, per=6)
        I += _batches("rank3{2,3,4,5,inf}", family(3, [2, 3, 4, 5, 0]), 6, per=8)
        I += _batches("rank3{6,7}", [_mat(3, ls) for ls in [(2, 3, 7), (3, 7, 2), (7, 2, 3), (2, 4, 6), (6, 6, 6), (3, 3, 7), (7, 7, 0), (2, 6, 0)]], 7, per=4)
        I += _batches("rank4", [_mat(4, ls) for ls in [(3, 2, 2, 3, 2, 3), (3, 2, 2, 3, 2, 4), (4, 2, 2, 3, 2, 3), (3, 3, 2, 2, 3, 3), (0, 2, 2, 3, 2, 0), (3, 2, 3, 3, 2, 3), (2, 2, 2, 2, 2, 2), (3, 2, 2, 0, 2, 3)]], 6, per=2, weight=10, timeout_s=600)
    else:
        I += _batches("rank2", family(2, [2, 3, 4, 5, 6, 7, 8, 12, 0]), 12, per=3)
        I += _batches("rank3{2..7,inf}", family(3, [2, 3, 4, 5, 6, 7, 0]), 8, per=8, weight=10, timeout_s=1500)
        I += _batches("rank3-long", [_mat(3, ls) for ls in [(2, 3, 7), (3, 3, 4), (2, 4, 5), (3, 3, 3), (2, 3, 0), (0, 0, 0), (2, 3, 5), (7, 7, 7)]], 10, per=1, weight=40, timeout_s=1500)
        import random
        rnd = random.Random(7)
        r4 = family(4, [2, 3, 4, 0])
        I += _batches("rank4{2,3,4,inf}", [r4[i] for i in sorted(rnd.sample(range(len(r4)), 240))], 6, per=6, weight=20, timeout_s=1500)
        I += _batches("rank5", [_mat(5, ls) for ls in RANK5], 5, per=1, weight=40, timeout_s=1500)
    return dict(
        instances=I,
        explanation=("bounded model checking (z3): for each Coxeter matrix of the family (a configuration, enumerated) the REAL CoxeterGroup.automaton "
                     "(geodesic, shortlex and both even-length variants; its float root arithmetic runs concretely) is built and its live transition table "
                     "is encoded as an uninterpreted function with ground facts; the oracle -- independent of the Brink-Howlett code -- is the Cayley ball "
                     "of radius L computed by exact cyclotomic-integer matrix arithmetic in the geometric representation (faithful by Tits), BFS with "
                     "generators in order, which gives every element's length and shortlex-least geodesic; the word is symbolic (L letters + length) and one "
                     "check-sat per (matrix, variant) decides: accepts(w) <=> every step lengthens (geodesic) / follows the BFS tree (shortlex); even variant "
                     "<=> accepted and of even length.  unsat = exact language up to length L; sat = witness word replayed with FSA.accepts"),
        bounds=dict(quick="rank 2 labels {2,3,4,5,7,inf} L=8; rank 3 all 125 ordered label triples from {2,3,4,5,inf} L=6 + 8 with labels 6,7 at L=7; 8 rank-4 matrices L=6",
                    thorough="rank 2 labels up to 12 L=12; rank 3 all 343 ordered triples from {2..7,inf} L=8 and 8 matrices at L=10; 240 random rank-4 matrices over {2,3,4,inf} L=6; 10 rank-5 matrices L=5"),
        outside=["words longer than L", "matrices outside the listed families", "growth series / distinct-image consequences are implied by the exact language, not checked separately"],
        assumptions=["generator order a<b<c<...: the order of rows of the Coxeter matrix", "even automaton words are lists of 2-letter chunks"],
        trusted_base=["z3 5.1.0 (QF_UFLIA)", "exact cyclotomic arithmetic in smtbmc/c07.py (python ints)", "Tits' theorem (faithfulness of the geometric representation)"],
        rule="one evaluation = one (Coxeter matrix, automaton variant) check-sat over all words up to L; non-trivial = unsat verdict with a non-empty automaton and ball",
    )
