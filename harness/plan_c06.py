from .chplan import tables, ch_instances, sample, CH_TRUSTED


def plan(tier):
    q = tier == 'quick'
    I = []
    sig = [("length", "int"), ("maxlen", "bool"), ("mode", "int"), ("state", "int"), ("renamed", "bool"), ("sv", "int")]
    for S, L in ([(2, 2)] if q else [(2, 2), (3, 2), (2, 3)]):
        T = tables(S, L)
        if (S, L) != (2, 2):
            T = sample(T, 200)
        I += ch_instances(f"automaton_accepted[{S}x{L}]", 'c06_accepted', sig, ["0 <= length <= 3", "0 <= mode < 3", f"0 <= state < {S}", (f"0 <= sv < {S} and (sv == 0 or (mode == 1 and not renamed))" if (S, L) == (2, 2) else "sv == 0")],
                          "B.c06_accepted({t}, length, maxlen, True, mode, state, {S}, {L}, renamed, sv)", [dict(t=t, S=S, L=L) for t in T], per_batch=5, timeout=150, weight=8)
    I += ch_instances("freely_reduced_elements", 'c06_free', [("length", "int"), ("maxlen", "bool")], ["0 <= length <= 3"],
                      "B.c06_free(length, maxlen, {L})", [dict(L=1), dict(L=2)], per_batch=1, timeout=200, weight=8)
    return dict(
        instances=I,
        explanation=("bounded symbolic verification with CrossHair: Representation.automaton_accepted / freely_reduced_elements are executed on the REAL "
                     "FSA built from a concrete table (configuration slice) with symbolic length, maxlen, with_words, start_state / end_state choice and state; "
                     "generators are fixed integer matrices generating a free subgroup (word -> matrix injective, so a wrong word, a wrong multiplication side "
                     "or a duplicated path is visible); compared with a reference enumeration of accepting paths over the raw table, with the automaton's "
                     "own enumerate_words, with the run without words and with two runs sharing a caller-supplied memo dictionary"),
        bounds=dict(automata="all 81 tables 2 states x 2 labels (quick); samples of 200 tables 3x2 and 2x3 (thorough)", length="0..3", options="maxlen, with_words, default / start_state / end_state x every state, memo reuse"),
        outside=["symbolic generator matrices for the multiplication order (covered by C05's word homomorphism with the same _word_value)", "built-in automata and multi-letter labels"],
        assumptions=["generator matrices [[1,2],[0,1]], [[1,0],[2,1]] (free subgroup of SL(2,Z)): the code under test never inspects entries"],
        trusted_base=CH_TRUSTED,
        rule="one evaluation = one (condition, automaton table) slice decided by CrossHair over its symbolic arguments; non-trivial = 'Confirmed over all paths' with the reachability twin refuted",
    )
