"""C15 -- reflections, their walls and isometry fixed points correspond to each other."""
import itertools
import math
import numpy as np
from geometry_tools import hyperbolic
from geometry_tools.base import GeometryError
from symnp import npmodels, transc, stubs
from symnp.core import F, FC


def _det(M):
    return npmodels.det_sym(M) if M.dtype == object else np.linalg.det(M)


def _J(n):
    return np.diag([-1] + [1] * n)


class _EigStub:
    """nondeterministic model of np.linalg.eig for a matrix with KNOWN simple spectrum: eigenvalues in an arbitrary order
    (forked), each eigenvector column scaled by an arbitrary non-zero factor (fresh symbols, complex where the data is complex)"""
    def __init__(self, h, evals, evecs, cplx=False, real_cols=()):
        # real_cols: eigenvalues that are real -- LAPACK (dgeev) returns REAL eigenvectors for them, so only a real scale is free
        self.h, self.evals, self.evecs, self.cplx, self.real_cols = h, evals, evecs, cplx, set(real_cols)

    def __call__(self, mat, *a, **kw):
        h = self.h
        n = len(self.evals)
        perms = list(itertools.permutations(range(n)))
        fx = h.opts.get('fix', {})
        if 'eig_perm' in fx:
            perm = perms[int(fx['eig_perm'])]
        else:
            sel = h.fresh('_eig_perm')
            if h.is_sym():
                c = (sel == 0)
                for i in range(1, len(perms)):
                    c = c | (sel == i)
                h.assume(c, 'stub: eigenvalue order selector')
                perm = None
                for i in range(len(perms)):
                    if bool(sel == i):
                        perm = perms[i]
                        break
            else:
                perm = perms[int(round(sel))]
        cols = []
        for k in perm:
            if self.cplx and k not in self.real_cols:
                mu = h.cvar(f"_mu{k}")
                nz = (mu != 0) if h.is_sym() else (abs(mu) > 1e-6)
            else:
                mu = h.fresh(f"_mu{k}")
                nz = (mu != 0) if h.is_sym() else (abs(mu) > 1e-6)
            h.assume(nz, 'stub: eigenvector scale != 0')
            col = self.evecs[k] * mu
            # LAPACK returns eigenvectors of Euclidean norm 1; the stub allows any norm in [1/2, 2] (a superset)
            if self.cplx:
                nrm2 = sum(((x.re * x.re + x.im * x.im) if h.is_sym() else abs(x) ** 2 for x in (col if not h.is_sym() else [FC.lift(x) for x in col])), 0)
            else:
                nrm2 = sum((x * x for x in col), 0)
            h.assume(nrm2 >= 0.25, 'stub: eigenvector norm >= 1/2')
            h.assume(nrm2 <= 4, 'stub: eigenvector norm <= 2')
            cols.append(col)
        dt = object if h.is_sym() else (complex if self.cplx else float)
        vals = np.array([self.evals[k] for k in perm], dtype=dt)
        vecs = np.stack([np.asarray(c, dtype=dt) for c in cols], axis=-1)
        return vals, vecs


class _with_eig:
    def __init__(self, h, stub):
        self.h, self.stub = h, stub

    def __enter__(self):
        if self.h.is_sym():
            npmodels.LINALG_OVERRIDES['eig'] = self.stub
        else:
            self.saved = np.linalg.eig
            if stubs.CUR.get('concrete_stub'):
                np.linalg.eig = self.stub

    def __exit__(self, *a):
        if self.h.is_sym():
            npmodels.LINALG_OVERRIDES.pop('eig', None)
        else:
            np.linalg.eig = self.saved


def _conj(h, n, tag='C'):
    th = transc.t_angle(h, tag + 'theta')
    return hyperbolic.Isometry.standard_rotation(th, dimension=n)


def loxodromic_fixed_points(h, n=2, rep_sign=1):
    """fixed_point_pair of C L C^-1 (L standard loxodromic, lambda > 1): attracting endpoint first, then repelling; both ideal and fixed"""
    lam = h.var('lam')
    h.assume(lam > 1, 'translation parameter lambda > 1')
    C = _conj(h, n)
    L = hyperbolic.Isometry.standard_loxodromic(n, lam)
    iso0 = C @ L @ C.inv()
    iso = hyperbolic.Isometry(rep_sign * iso0.proj_data)
    base = [np.array([1, 1] + [0] * (n - 1)), np.array([1, -1] + [0] * (n - 1))] + [np.eye(n + 1, dtype=int)[k] for k in range(2, n + 1)]
    one = 1 + 0 * lam
    evecs = [(C @ hyperbolic.Point(b * one)).proj_data for b in base]
    evals = [rep_sign * lam, rep_sign / lam] + [rep_sign * one] * (n - 1)
    if n > 2:
        raise ValueError("repeated eigenvalue 1: the simple-spectrum stub covers n = 2 only")
    with _with_eig(h, _EigStub(h, evals, evecs)):
        pair = iso.fixed_point_pair()
        single = iso.fixed_point()
    J = _J(n)
    P = pair.proj_data
    h.proj_eq("first fixed point is the attracting endpoint", P[0], evecs[0], nonzero=False)
    h.proj_eq("second fixed point is the repelling endpoint", P[1], evecs[1], nonzero=False)
    for k in range(2):
        h.eq(f"fixed point {k} is ideal (lightlike)", P[k] @ J @ P[k], 0, validate=False)
        h.proj_eq(f"fixed point {k} is fixed", (iso @ hyperbolic.Point(P[k])).proj_data, P[k], nonzero=False)
        h.holds(f"fixed point {k} is a non-zero vector", _anynz(h, P[k]))
    h.proj_eq("fixed_point() is the attracting endpoint", single.proj_data, evecs[0], nonzero=False)
    # attracting: iso moves a generic interior point closer (in the Klein chart, along the axis) to the first fixed point: lambda > 1 is its eigenvalue
    img = (iso @ hyperbolic.Point(evecs[0])).proj_data
    h.eq("the first fixed point has the eigenvalue of larger modulus", img, rep_sign * lam * evecs[0], validate=False)


def _anynz(h, d):
    if h.is_sym():
        out = (d[0] != 0)
        for x in d[1:]:
            out = out | (x != 0)
        return out
    return np.abs(d).max() > 1e-9


def elliptic_fixed_point(h, n=2, rep_sign=1):
    """fixed_point of C rot(theta) C^-1: the interior point C(origin)"""
    mu = h.var('mu')
    h.assume(mu > 0, 'conjugating translation parameter > 0')
    if not h.is_sym():
        h.assume(mu > 1e-2, 'conjugating translation parameter > 0')
    C0 = hyperbolic.Isometry.standard_loxodromic(n, mu)
    th = transc.t_angle(h, 'theta')
    c, s = (th.cos(), th.sin()) if h.is_sym() else (math.cos(th), math.sin(th))
    h.assume(s != 0 if h.is_sym() else abs(s) > 1e-3, 'rotation angle not 0 or pi (simple spectrum)')
    R = hyperbolic.Isometry.standard_rotation(th, dimension=n)
    iso0 = C0 @ R @ C0.inv()
    iso = hyperbolic.Isometry(rep_sign * iso0.proj_data)
    one = 1 + 0 * c
    e0 = (C0 @ hyperbolic.Point(np.array([1, 0, 0]) * one)).proj_data
    # complex eigenvectors (0, 1, -+i) of the rotation block, transported by C0 (linear, so apply the matrix)
    M0 = C0.proj_data
    i_ = FC(F.const(0), F.const(1)) if h.is_sym() else 1j
    ep = np.array([0 * one, one, -i_ * one], dtype=object if h.is_sym() else complex) @ M0
    em = np.array([0 * one, one, i_ * one], dtype=object if h.is_sym() else complex) @ M0
    lp = (FC(c, s) if h.is_sym() else complex(c, s))
    lm = (FC(c, -s) if h.is_sym() else complex(c, -s))
    evals = [rep_sign * (FC(one, 0 * one) if h.is_sym() else complex(1.0)), rep_sign * lp, rep_sign * lm]
    evecs = [e0 * (FC(one, 0 * one) if h.is_sym() else complex(1.0)), ep, em]
    with _with_eig(h, _EigStub(h, evals, evecs, cplx=True, real_cols=(0,))):
        fp = iso.fixed_point()
    J = _J(n)
    v = fp.proj_data
    h.proj_eq("fixed point is C(origin)", v, e0, nonzero=False)
    h.holds("fixed point is interior (timelike)", v @ J @ v < 0)
    h.proj_eq("fixed point is fixed", (iso @ hyperbolic.Point(v)).proj_data, v, nonzero=False)


def from_reflection(h, n=2, rep_sign=1):
    """Hyperplane.from_reflection / Geodesic.from_reflection recover the wall of the Minkowski reflection in a symbolic spacelike normal"""
    h.stub('kernel', mode='flag')
    v = h.arr('v', (n + 1,))
    J = _J(n)
    nv = v @ J @ v
    h.assume(nv > 0, 'spacelike normal')
    if not h.is_sym():
        h.assume(nv > 1e-3, 'spacelike beyond the library threshold')
    I = np.diag([1] * (n + 1))
    M = I - 2 * np.outer(J @ v, v) / nv            # row action: x -> x - 2 <x,v>/<v,v> v
    R = hyperbolic.Isometry(rep_sign * M)
    h.eq("the test matrix is a reflection: preserves J", M @ J @ M.T, J, validate=False)
    # eigen data of the column matrix M^T: -1 on v, +1 on the J-orthogonal complement of v (two vectors in general position)
    comp = []
    for k in range(n):
        w = h.arr(f"c{k}", (n + 1,))
        w = w - ((w @ J @ v) / nv) * v
        comp.append(w)
    if n == 2:
        d = _det(np.array([v, comp[0], comp[1]], dtype=object if h.is_sym() else float))
        h.assume(d != 0 if h.is_sym() else abs(d) > 1e-3, 'stub: eigenvectors independent')
    one = 1 + 0 * v[0]
    evals = [-rep_sign * one] + [rep_sign * one] * n
    if rep_sign == -1:
        # the negative representative of a reflection has spectrum (1, -1, -1): not the pattern from_reflection accepts
        pass
    evecs = [v] + comp
    # repeated eigenvalue: only the position of the (-1) eigenvalue matters; fix the order of the rest
    stub = _EigStub(h, evals, evecs)
    with _with_eig(h, stub):
        try:
            H = hyperbolic.Hyperplane.from_reflection(R)
            raised = False
        except GeometryError:
            raised = True
    if rep_sign == 1:
        h.holds("a reflection is accepted", not raised)
        if not raised:
            h.proj_eq("recovered normal ~ original normal", H.spacelike_vector, v, nonzero=False)
            for k in range(H.ideal_basis.shape[-2]):
                ib = H.ideal_basis[k]
                h.eq(f"ideal basis point {k} is lightlike", ib @ J @ ib, 0, validate=False)
                h.eq(f"ideal basis point {k} lies on the wall", ib @ J @ v, 0, validate=False)


def non_reflection_rejected(h, kind='rotation'):
    """Hyperplane.from_reflection rejects isometries that are not reflections"""
    n = 2
    if kind == 'rotation':
        th = transc.t_angle(h, 'theta')
        c, s = (th.cos(), th.sin()) if h.is_sym() else (math.cos(th), math.sin(th))
        h.assume(s != 0 if h.is_sym() else abs(s) > 1e-3, 'proper rotation')
        iso = hyperbolic.Isometry.standard_rotation(th, dimension=n)
        one = 1 + 0 * c
        i_ = FC(F.const(0), F.const(1)) if h.is_sym() else 1j
        mk = (lambda a, b: FC(a, b)) if h.is_sym() else (lambda a, b: complex(a, b))
        evals = [mk(one, 0 * one), mk(c, s), mk(c, -s)]
        evecs = [np.array([mk(one, 0 * one), mk(0 * one, 0 * one), mk(0 * one, 0 * one)], dtype=object if h.is_sym() else complex),
                 np.array([mk(0 * one, 0 * one), mk(one, 0 * one), mk(0 * one, -one)], dtype=object if h.is_sym() else complex),
                 np.array([mk(0 * one, 0 * one), mk(one, 0 * one), mk(0 * one, one)], dtype=object if h.is_sym() else complex)]
        stub = _EigStub(h, evals, evecs, cplx=True, real_cols=(0,))
    else:
        lam = h.var('lam')
        h.assume(lam > 1, 'lambda > 1')
        iso = hyperbolic.Isometry.standard_loxodromic(n, lam)
        one = 1 + 0 * lam
        evals = [lam, 1 / lam, one]
        evecs = [np.array([1, 1, 0]) * one, np.array([1, -1, 0]) * one, np.array([0, 0, 1]) * one]
        stub = _EigStub(h, evals, evecs)
    with _with_eig(h, stub):
        h.raises("non-reflection rejected", (GeometryError,), lambda: hyperbolic.Hyperplane.from_reflection(iso))


def reflection(h, n=2):
    """reflection across a hyperplane: involutive, orientation reversing, preserves the form, negates the normal, fixes the ideal basis"""
    h.stub('kernel', mode='flag')
    v = h.arr('v', (n + 1,))
    J = _J(n)
    h.assume(v @ J @ v > 0, 'spacelike normal')
    if not h.is_sym():
        h.assume(v @ J @ v > 1e-3, 'spacelike beyond the library threshold')
    H = hyperbolic.Hyperplane(v.copy())
    R = H.reflection_across()
    M = R.proj_data
    I = np.diag([1] * (n + 1))
    h.eq("preserves the form", M @ J @ M.T, J)
    h.eq("involution", M @ M, I, validate=False)
    h.holds("orientation reversing", _det(M) < 0)
    h.proj_eq("negates the normal", (R @ hyperbolic.Point(v.copy())).proj_data, v, nonzero=False)
    h.eq("negates the normal (exactly)", v @ M, -v, validate=False)
    for k in range(H.ideal_basis.shape[-2]):
        ib = H.ideal_basis[k]
        h.eq(f"fixes ideal basis point {k}", ib @ M, ib, validate=False)
    # two-step: move the wall by a symbolic rotation AFTER its reflection was queried, then ask again
    g = _conj(h, n, tag='G')
    H2 = g @ H
    R2 = H2.reflection_across()
    v2 = H2.spacelike_vector
    h.eq("reflection across the moved wall negates the moved normal", v2 @ R2.proj_data, -v2, validate=False)
    h.eq("reflection across the moved wall = conjugate of the original reflection", R2.proj_data, np.linalg.inv(g.proj_data) @ M @ g.proj_data, validate=False)


class _EigStubBatch:
    """eigen stub for a STACK of matrices with known simple spectra: independent eigenvalue order and eigenvector scales per element"""
    def __init__(self, h, units):
        self.h = h
        self.units = units            # list of (evals, evecs)

    def __call__(self, mat, *a, **kw):
        h = self.h
        vals, vecs = [], []
        for e, unit in enumerate(self.units):
            evals, evecs = unit[0], unit[1]
            kw = unit[2] if len(unit) > 2 else {}
            st = _EigStub(h, evals, evecs, **kw)
            # distinct fresh names per element
            orig_fresh = h.fresh
            fx = dict(h.opts.get('fix', {}))
            if f"eig_perm{e}" in fx:
                h.opts.setdefault('fix', {})['eig_perm'] = fx[f"eig_perm{e}"]
            try:
                h.fresh = (lambda name, _e=e, _f=orig_fresh: _f(f"{name}_el{_e}"))
                v, w = st(None)
            finally:
                h.fresh = orig_fresh
                if 'eig_perm' in h.opts.get('fix', {}) and f"eig_perm{e}" in fx:
                    h.opts['fix'].pop('eig_perm', None)
            vals.append(v)
            vecs.append(w)
        return np.stack(vals, axis=0), np.stack(vecs, axis=0)


def composite_fixed_points(h, n=2):
    """fixed_point_pair of a composite isometry (two loxodromics with independent data): each unit gets its own attracting / repelling pair"""
    units, isos, wants = [], [], []
    for e in range(2):
        lam = h.var(f"lam{e}")
        h.assume(lam > 1, 'translation parameter lambda > 1')
        C = _conj(h, n, tag=f"C{e}")
        L = hyperbolic.Isometry.standard_loxodromic(n, lam)
        iso0 = C @ L @ C.inv()
        one = 1 + 0 * lam
        base = [np.array([1, 1, 0]), np.array([1, -1, 0]), np.array([0, 0, 1])]
        evecs = [(C @ hyperbolic.Point(b * one)).proj_data for b in base]
        units.append(([lam, 1 / lam, one], evecs))
        isos.append(iso0.proj_data)
        wants.append(evecs)
    iso = hyperbolic.Isometry(np.array(isos, dtype=object if h.is_sym() else float))
    with _with_eig(h, _EigStubBatch(h, units)):
        pair = iso.fixed_point_pair()
    P = pair.proj_data
    h.eq("shape", np.array(P.shape), np.array([2, 2, n + 1]))
    J = _J(n)
    for e in range(2):
        h.proj_eq(f"unit {e}: first fixed point is its attracting endpoint", P[e][0], wants[e][0], nonzero=False)
        h.proj_eq(f"unit {e}: second fixed point is its repelling endpoint", P[e][1], wants[e][1], nonzero=False)
        for k in range(2):
            h.eq(f"unit {e}: fixed point {k} is lightlike", P[e][k] @ J @ P[e][k], 0, validate=False)


def composite_rejection(h):
    """Hyperplane.from_reflection on a composite [reflection, rotation] must reject it: a non-reflection anywhere in the stack is an error"""
    h.stub('kernel', mode='flag')
    n = 2
    v = h.arr('v', (n + 1,))
    J = _J(n)
    nv = v @ J @ v
    h.assume(nv > 0, 'spacelike normal')
    if not h.is_sym():
        h.assume(nv > 1e-3, 'spacelike beyond the library threshold')
    I = np.diag([1] * (n + 1))
    M = I - 2 * np.outer(J @ v, v) / nv
    th = transc.t_angle(h, 'theta')
    c, s_ = (th.cos(), th.sin()) if h.is_sym() else (math.cos(th), math.sin(th))
    h.assume(s_ != 0 if h.is_sym() else abs(s_) > 1e-3, 'proper rotation')
    Rot = hyperbolic.Isometry.standard_rotation(th, dimension=n).proj_data
    one = 1 + 0 * c
    mk = (lambda a, b: FC(a, b)) if h.is_sym() else (lambda a, b: complex(a, b))
    z = 0 * one
    comp = []
    for k in range(n):
        w = h.arr(f"c{k}", (n + 1,))
        w = w - ((w @ J @ v) / nv) * v
        comp.append(w)
    d = _det(np.array([v, comp[0], comp[1]], dtype=object if h.is_sym() else float))
    h.assume(d != 0 if h.is_sym() else abs(d) > 1e-3, 'stub: eigenvectors independent')
    cpl = lambda vec: np.array([mk(x, 0 * one) for x in vec], dtype=object if h.is_sym() else complex)
    unit0 = ([mk(-one, z), mk(one, z), mk(one, z)], [cpl(v), cpl(comp[0]), cpl(comp[1])], dict(cplx=True, real_cols=(0, 1, 2)))
    unit1 = ([mk(one, z), mk(c, s_), mk(c, -s_)],
             [np.array([mk(one, z), mk(z, z), mk(z, z)], dtype=object if h.is_sym() else complex),
              np.array([mk(z, z), mk(one, z), mk(z, -one)], dtype=object if h.is_sym() else complex),
              np.array([mk(z, z), mk(one, z), mk(z, one)], dtype=object if h.is_sym() else complex)], dict(cplx=True, real_cols=(0,)))
    for order in ((M, Rot, [unit0, unit1]), (Rot, M, [unit1, unit0])):
        iso = hyperbolic.Isometry(np.array([order[0], order[1]], dtype=object if h.is_sym() else float))
        with _with_eig(h, _EigStubBatch(h, order[2])):
            h.raises("a composite containing a non-reflection is rejected", (GeometryError,), lambda: hyperbolic.Hyperplane.from_reflection(iso))
