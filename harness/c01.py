"""C01 -- hyperbolic model coordinates are mutually consistent and carry one metric."""
import numpy as np
from geometry_tools import hyperbolic

MODELS = ["projective", "hyperboloid", "klein", "poincare", "halfspace"]


def _ball(h, x):
    h.assume(h.dot(x, x) < 1, 'interior point')


def roundtrip(h, n=2, m1="poincare", m2="klein", shape=(), ideal=False):
    """q = Point(Point(x).coords(m1), model=m1);  q.coords(m2) == Point(x).coords(m2)"""
    x = h.arr('x', shape + (n,))
    for idx in np.ndindex(*shape):
        v = x[idx]
        if ideal:
            h.assume(h.dot(v, v) == 1, 'ideal point')
            if 'halfspace' in (m1, m2):
                # the half-space point at infinity is (1, 0, ..., 0) in Klein/Poincare coordinates
                h.assume(v[0] != 1, 'not the half-space point at infinity')
        else:
            _ball(h, v)
    p = hyperbolic.Point(x.copy(), model="klein")
    mk = h.mark()
    c = p.coords(m1)
    q = hyperbolic.Point(np.array(c), model=m1)
    want = hyperbolic.Point(x.copy(), model="klein").coords(m2)
    got = q.coords(m2)
    if m2 in ("projective",):
        h.proj_eq(f"roundtrip[{m1}->{m2}]", got, want)
    elif m2 == "hyperboloid" and ideal:
        # normalisation of a lightlike vector is the identity (norm 0): compare projectively
        h.proj_eq(f"roundtrip[{m1}->{m2}]", got, want)
    else:
        h.eq(f"roundtrip[{m1}->{m2}]", got, want)
    h.proj_eq(f"samepoint[{m1}]", q.proj_data, hyperbolic.Point(x.copy(), model="klein").proj_data)
    h.eq(f"shape[{m1}]", np.array(q.proj_data.shape), np.array(shape + (n + 1,)))
    h.defined(f"finite[{m1}->{m2}]", mk)


def _E(h, d):
    """exp(d): distances are compared through exp (monotone), which is algebraic in the inputs"""
    return h.expo(d)


def _metric_formula(h, model, u, v):
    """cosh of the distance by the model's own closed-form metric"""
    uu, vv, uv = h.dot(u, u), h.dot(v, v), h.dot(u, v)
    d2 = uu - 2 * uv + vv
    if model == "poincare":
        return 1 + 2 * d2 / ((1 - uu) * (1 - vv))
    if model == "halfspace":
        return 1 + d2 / (2 * u[-1] * v[-1])
    if model == "hyperboloid":
        return -(-u[0] * v[0] + h.dot(u[1:], v[1:]))
    if model == "klein":
        return (1 - uv) / np.sqrt((1 - uu) * (1 - vv))
    raise ValueError(model)


def metric(h, n=2, model="poincare"):
    """cosh(d_lib(p, q)) equals the closed-form metric of `model` evaluated on that model's coordinates"""
    h.prove_lemmas()
    x = h.arr('x', (n,))
    y = h.arr('y', (n,))
    _ball(h, x)
    _ball(h, y)
    p = hyperbolic.Point(x.copy(), model="klein")
    q = hyperbolic.Point(y.copy(), model="klein")
    u = p.coords(model)
    v = q.coords(model)
    if model == "hyperboloid":
        # hyperboloid coordinates are only defined up to sign of the representative: orient to the upper sheet
        u = u * np.sign(u[0])
        v = v * np.sign(v[0])
    mk = h.mark()
    d = p.distance(q)
    if h.is_sym():
        coshd = d.cosh()
    else:
        coshd = np.cosh(d)
    h.eq(f"metric[{model}]", coshd, _metric_formula(h, model, u, v))
    if not h.is_sym():
        # float replay only: also compare on the scale of d itself (cosh flattens differences between nearby points: d = 2e-4 is 2e-8 on the cosh scale)
        h.eq(f"metric[{model}]", d, np.arccosh(np.maximum(np.real(np.asarray(_metric_formula(h, model, u, v), dtype=complex)), 1.0)))
    h.defined("distance-finite", mk)


def metric_laws(h, n=1, law="basic", order=None):
    if law == "basic":
        h.prove_lemmas()
    x = h.arr('x', (n,))
    y = h.arr('y', (n,))
    _ball(h, x)
    _ball(h, y)
    p = hyperbolic.Point(x.copy(), model="klein")
    q = hyperbolic.Point(y.copy(), model="klein")
    if law == "basic":
        mk = h.mark()
        dpq = p.distance(q)
        h.defined("finite", mk)          # includes arccosh argument >= 1  (reverse Cauchy-Schwarz)
        dqp = hyperbolic.Point(y.copy(), model="klein").distance(hyperbolic.Point(x.copy(), model="klein"))
        dpp = hyperbolic.Point(x.copy(), model="klein").distance(hyperbolic.Point(x.copy(), model="klein"))
        h.eq("symmetric", _E(h, dpq), _E(h, dqp))
        if h.is_sym():
            h.eq("d(x,x)=0", dpp.expo(), 1, validate=False)
        else:
            # over the reals d(x,x) = 0; float rounding of this query is the separate FP check
            h.holds("d(x,x)=0", np.isnan(dpp) or abs(dpp) < 1e-6)
        h.holds("nonnegative", _E(h, dpq) >= 1)
    elif law == "triangle":
        z = h.arr('z', (n,))
        _ball(h, z)
        if order is not None:
            # slice of the input space (the six orderings of the first coordinates), one process per slice
            import itertools
            a, b, c = list(itertools.permutations([x[0], y[0], z[0]]))[order]
            h.assume(a <= b, 'slice')
            h.assume(b <= c, 'slice')
        r = hyperbolic.Point(z.copy(), model="klein")
        dxy = p.distance(q)
        dyz = hyperbolic.Point(y.copy(), model="klein").distance(r)
        dxz = hyperbolic.Point(x.copy(), model="klein").distance(hyperbolic.Point(z.copy(), model="klein"))
        h.observe("distances", [_E(h, dxy), _E(h, dyz), _E(h, dxz)])
        h.holds("triangle", _E(h, dxz) <= _E(h, dxy) * _E(h, dyz) * (1 if h.is_sym() else 1 + 1e-9))
