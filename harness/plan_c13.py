from .registry import inst


def plan(tier):
    q = tier == 'quick'
    I = []
    for force in (True, False):
        I.append(inst(f"origin_to-target[n=1,force={force}]", 'harness.c13', 'origin_to', dict(n=1, force=force), weight=2))
    cases2 = [dict(_k1_w=w, _k1_e0=a, _k1_e1=b) for w in (0, 1) for a in (1, -1) for b in (1, -1)]
    for k, fx in enumerate(cases2 if not q else cases2[:3]):
        I.append(inst(f"origin_to-target[n=2,kernel-case={k}]", 'harness.c13', 'origin_to', dict(n=2), opts=dict(fix=fx), weight=60, timeout_s=1200))
    for s in (1, -1):
        I.append(inst(f"point_along[n=2,kernel-sign={s}]", 'harness.c13', 'point_along', dict(n=2), opts=dict(fix={"_k1_e0": s}), weight=50, timeout_s=1200))
        I.append(inst(f"reach-target[n=2,kernel-sign={s}]", 'harness.c13', 'reach_target', dict(n=2), opts=dict(fix={"_k1_e0": s}), weight=80, timeout_s=1500))
        if True:
            I.append(inst(f"tangent-origin_to[n=2,kernel-sign={s}]", 'harness.c13', 'tangent_origin_to', dict(n=2), opts=dict(fix={"_k1_e0": s}), weight=200, timeout_s=1500))
    I.append(inst("angle-general-vectors[n=2]", 'harness.c13', 'angle_general', dict(n=2), weight=60, timeout_s=1200))
    I.append(inst("regular-polygon[n=4,by=angle,dimension=3]", 'harness.c13', 'regular_polygon', dict(sides=4, by='angle', dimension=3), weight=60, timeout_s=1500, opts=dict(nspare=40)))
    I.append(inst("angle-law-of-cosines[n=2]", 'harness.c13', 'angle', dict(n=2), weight=100, timeout_s=1500))
    if not q:
        I.append(inst("angle-law-of-cosines[n=3]", 'harness.c13', 'angle', dict(n=3), weight=400, timeout_s=1500))
    for sides in ([3, 4, 6] if q else [3, 4, 5, 6, 7, 8]):
        for by in ('angle', 'radius'):
            I.append(inst(f"regular-polygon[n={sides},by={by}]", 'harness.c13', 'regular_polygon', dict(sides=sides, by=by), weight=10 * sides, timeout_s=1500, opts=dict(nspare=40)))
    return dict(
        instances=I,
        explanation=("bounded symbolic verification: Point.origin_to (target of the origin), TangentVector.point_along with a symbolic distance t = ln E "
                     "(exp(2t) = E^2 enters hyp_to_affine_dist algebraically; E<1 is a negative t), unit_tangent_towards + point_along(d(p,q)) arriving at q, "
                     "TangentVector.angle against the hyperbolic law of cosines (arccos / arctan results are carried by their cosine and sine), and "
                     "Polygon.regular_polygon / regular_polygon_radius / polygon_interior_angle for concrete numbers of sides and a symbolic interior angle "
                     "(pi exact, cos(pi/n) algebraic atoms): vertex count, equal distance from the origin, equal sides, interior angle, inverse formulas.  "
                     "Frame completion uses the nondeterministic null-space stub; goals by normal form / z3"),
        bounds=dict(dimension="H^2 (origin_to also H^1; angle H^3 in thorough)", polygons="3, 4, 6 sides (quick); 3..8 attempted in thorough under a 25 min cap each (5, 7, 8 need degree 4-6 number fields and may be reported inconclusive)",
                    distances="all real t (E = e^t > 0 symbolic)"),
        outside=["dimensions 3..5 for the frame-completion based operations (polynomial blow-up)", "tangent transport isometry_to (two frame completions): covered only through origin_to in thorough",
                 "H^1 tangent vectors (degenerate; see findings)", "genus_g_surface_radius (numeric pi/(2g) input is a special case of the symbolic angle)"],
        assumptions=["interior points, distinct points, admissible interior angle 0 < a < (n-2)pi/n", "real-number semantics"],
    )
