import itertools
import math
from .registry import inst


def plan(tier):
    q = tier == 'quick'
    I = []
    sigs = [(p, n - p) for n in ((1, 2, 3) if q else (1, 2, 3, 4)) for p in range(0, n + 1)]
    for (p, qq) in sigs:
        n = p + qq
        for k in range(1, n + 1):
            if n == 3 and k == 3 and q:
                continue
            if n == 4 and k > 2:
                continue
            heavy = n >= 3 and k >= 3
            I.append(inst(f"orthogonalize[sig=({p},{qq}),rows={k}]", 'harness.c18', 'orthogonalize', dict(p=p, q=qq, k=k), weight=60 if heavy else 3 * n * k, timeout_s=1500, opts=dict(max_vars=64)))
    I.append(inst("orthogonalize[congruent form,sig=(1,1),rows=2]", 'harness.c18', 'orthogonalize', dict(p=1, q=1, k=2, congruent=True), weight=20, timeout_s=900))
    for (p, qq) in [(1, 1), (0, 2), (2, 0)] + ([] if q else [(1, 2), (2, 1)]):
        for force in (False, True):
            for k in range(1, p + qq):
                I.append(inst(f"find_isometry[sig=({p},{qq}),rows={k},force={force}]", 'harness.c18', 'find_isometry', dict(p=p, q=qq, k=k, force=force), weight=20 * (p + qq), timeout_s=1800))
    if q:
        I.append(inst("find_isometry[sig=(1,2),rows=1,kernel-case=0]", 'harness.c18', 'find_isometry', dict(p=1, q=2, k=1), opts=dict(fix={"_k1_w": 0, "_k1_e0": 1, "_k1_e1": 1}), weight=100, timeout_s=900))
        I.append(inst("find_isometry[sig=(1,2),rows=2,kernel-sign=1]", 'harness.c18', 'find_isometry', dict(p=1, q=2, k=2), opts=dict(fix={"_k1_e0": 1}), weight=100, timeout_s=900))
    for signs in [(-1, 1), (1, 1), (-1, -1), (-1, 1, 1), (-1, -1, 1)] + ([] if q else [(1, 1, 1), (-1, -1, -1)]):
        n = len(signs)
        for order in ("signed", "minkowski"):
            for reverse in (False, True):
                for eo in range(math.factorial(n)):
                    # eigenvalue order slice must be consistent with the signs: negatives below positives
                    perm = list(itertools.permutations(range(n)))[eo]
                    vals = [signs[i] for i in perm]
                    if vals != sorted(vals):
                        continue
                    if q and n == 3 and not (order == "minkowski" and not reverse and eo == 0 and signs == (-1, -1, 1)):
                        continue
                    I.append(inst(f"diagonalize_form[signs={signs},{order},reverse={reverse},eig-order={eo}]", 'harness.c18', 'diagonalize_form',
                                  dict(signs=signs, order=order, reverse=reverse, eig_order=eo), weight=30 * n, timeout_s=1500))
    for shape, rank in [((1, 2), None), ((1, 3), None), ((2, 3), None), ((2, 2), 1), ((2, 3), 1), ((3, 3), 2), ((2, 2), 2), ((3, 3), 3)] + ([] if q else [((3, 3), 1), ((2, 4), None), ((3, 4), 2)]):
        I.append(inst(f"kernel[{shape},rank={rank}]", 'harness.c18', 'kernel', dict(shape=shape, rank=rank), weight=5 * shape[0] * shape[1], timeout_s=1200, opts=dict(max_vars=64)))
    I.append(inst("sphere_through[k=1]", 'harness.c18', 'sphere_through', dict(k=1), weight=200, timeout_s=1200))
    if not q:
        I.append(inst("sphere_through[k=2]", 'harness.c18', 'sphere_through', dict(k=2), weight=600, timeout_s=1500))
    for which in ('short_arc', 'right_to_left', 'arc_include'):
        I.append(inst(f"arcs[{which},single pair]", 'harness.c18', 'arcs', dict(which=which, batch=1), weight=40, timeout_s=900, opts=dict(max_paths=1024)))
        if not (q and which == 'arc_include'):
            I.append(inst(f"arcs[{which},batch of 2]", 'harness.c18', 'arcs', dict(which=which, batch=2), weight=100, timeout_s=1500, opts=dict(max_paths=(600 if q else 4096))))
    # short_arc on its whole documented input range (-2pi, 2pi): the same directions given with windings
    for w in [(1, 0), (0, 1), (-1, 0), (0, -1), (-1, 1), (1, -1), (1, 1), (-1, -1)]:
        I.append(inst(f"arcs[short_arc,single pair,windings={w}]", 'harness.c18', 'arcs', dict(which='short_arc', batch=1, wind=w), weight=20, timeout_s=900, opts=dict(max_paths=1024)))
    return dict(
        instances=I,
        explanation=("bounded symbolic verification: indefinite_orthogonalize (all signatures, symbolic rows in general position; also a symbolic congruent "
                     "form), find_isometry (null-space stub), diagonalize_form with a spectral eigh stub (B := U diag(w) U^T for symbolic orthogonal U and "
                     "eigenvalues of prescribed signs; the stub returns them ascending with eigenvectors of arbitrary sign), svd_kernel with an SVD stub "
                     "(M := U diag(s) V^T, exact zero singular values for the rank pattern), sphere_through / circle_through, and the arc-ordering helpers "
                     "on arctan2 angles carried as plane directions (comparisons, +2pi, differences are exact half-plane / cross-product predicates).  "
                     "Goals: orthogonality, +-1 norms, flags via vanishing minors, W^T B W = requested +-1 diagonal, Winv W = I, M K = 0, K^T K = I, kernel "
                     "dimension, equal distances to the centre, 'same two angles' and the arc-selection rule; exact normal form / z3"),
        bounds=dict(forms="signatures with p+q<=3 (quick) / <=4 (thorough)", diagonalize_form="n=2: every eigenvalue order, both orderings, reverse; n=3: minkowski ordering for signatures (1,2) and (2,1) in quick, everything in thorough",
                    kernel="shapes up to 3x3 (3x4 thorough) with every listed rank pattern", sphere="circle (k=1); sphere k=2 attempted in thorough", arcs="single pairs and batches of 2"),
        outside=["find_definite_isometry (np.linalg.qr has no model)", "orthogonal_complement beyond what find_isometry exercises", "repeated eigenvalues (the spectral stub assumes a simple spectrum)",
                 "singular values / eigenvalues near the 1e-8 thresholds (real-number semantics with values bounded away from 0)"],
        assumptions=["rows in general position (non-degenerate partial flags)", "simple spectrum; singular values > 1e-3", "distinct directions for the arc helpers (not antipodal for short_arc)"],
    )
