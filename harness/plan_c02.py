import itertools
import math
from .registry import inst


def _cases(m, call=1):
    """all (permutation selector, signs) cases of the flag parametrisation of one kernel call with m free rows"""
    out = []
    for w in range(math.factorial(m)):
        for signs in itertools.product((1, -1), repeat=m):
            fx = {f"_k{call}_w": w}
            fx.update({f"_k{call}_e{i}": s for i, s in enumerate(signs)})
            out.append(fx)
    return out


def plan(tier):
    q = tier == 'quick'
    I = []
    for n in ([2, 3] if q else [2, 3, 4]):
        for flip in (False, True):
            I.append(inst(f"standard_rotation[n={n},chart={int(flip)}]", 'harness.c02', 'rotation', dict(n=n, flip=flip), weight=10, timeout_s=900))
    for n in ([2, 3] if q else [2, 3, 4]):
        I.append(inst(f"elliptic[n={n}]", 'harness.c02', 'elliptic', dict(n=n), weight=5 * n, timeout_s=1800, opts=dict(max_vars=64)))
    for n in ([1, 2, 3] if q else [1, 2, 3, 4]):
        I.append(inst(f"standard_loxodromic[n={n}]", 'harness.c02', 'loxodromic', dict(n=n), weight=5, timeout_s=900))
    for sign in (1, -1):
        for chart in (0, 1):
            I.append(inst(f"sl2_iso[det={sign},chart={chart}]", 'harness.c02', 'sl2', dict(sign=sign, chart=chart), weight=5, timeout_s=900))
    for which in ('origin_to', 'timelike_to'):
        for force in (True, False):
            I.append(inst(f"{which}[n=1,force={force}]", 'harness.c02', 'from_point', dict(n=1, which=which, force=force), weight=2))
            for k, fx in enumerate(_cases(2)):
                if q and (which, force) != ('origin_to', True) and k not in (0, 5):
                    continue
                I.append(inst(f"{which}[n=2,force={force},kernel-case={k}]", 'harness.c02', 'from_point', dict(n=2, which=which, force=force),
                              opts=dict(fix=fx), weight=40, timeout_s=1200))
    for force in (False, True):
        I.append(inst(f"spacelike_to[n=1,force={force}]", 'harness.c02', 'from_spacelike', dict(n=1, force=force), weight=5, timeout_s=600))
    for n in ([2] if q else [2, 3]):
        I.append(inst(f"closure[n={n}]", 'harness.c02', 'closure', dict(n=n), weight=10 * n, timeout_s=1800, opts=dict(max_vars=64)))
    # frame completion in H^2 with two symbolic frame vectors (spread over the stub's cases)
    c2 = _cases(2)
    for k, fx in enumerate(c2 if not q else [c2[0], c2[3], c2[5], c2[6]]):
        I.append(inst(f"spacelike_to[n=2,kernel-case={k}]", 'harness.c02', 'from_spacelike', dict(n=2), opts=dict(fix=fx), weight=60, timeout_s=1200))
        I.append(inst(f"reflection_across[n=2,kernel-case={k}]", 'harness.c02', 'reflection', dict(n=2), opts=dict(fix=fx), weight=80, timeout_s=1200))
    for s in (1, -1):
        I.append(inst(f"TangentVector.origin_to[n=2,sign={s}]", 'harness.c02', 'from_tangent', dict(n=2), opts=dict(fix={"_k1_e0": s}), weight=40, timeout_s=1200))
    if not q:
        # attempted under a wall-clock cap; inconclusive (reported) if it does not finish
        I.append(inst("TangentVector.isometry_to[n=2]", 'harness.c02', 'from_tangent', dict(n=2, which='isometry_to'), opts=dict(fix={"_k1_e0": 1, "_k2_e0": 1}), weight=600, timeout_s=1500))
        for k, fx in enumerate(_cases(3)[:2]):
            I.append(inst(f"origin_to[n=3,kernel-case={k}]", 'harness.c02', 'from_point', dict(n=3), opts=dict(fix=fx), weight=600, timeout_s=1500))
    return dict(
        instances=I,
        explanation=("bounded symbolic verification: each isometry constructor (standard_rotation, Isometry.elliptic, standard_loxodromic, sl2_iso / "
                     "from_sl2, Point.origin_to, timelike_to, spacelike_to, TangentVector.origin_to / isometry_to, reflection_across) is executed with "
                     "symbolic parameters; the goals M J M^T = J, M^T J M = J, <Mv,Mv> = <v,v>, d(Mp,Mq) = d(p,q), positive determinant on request are "
                     "decided exactly (normal form / z3 QF_NRA).  find_isometry's SVD null-space call is a nondeterministic stub returning an arbitrary "
                     "null-space basis in a parametrisation that is exhaustive for Gram-Schmidt consumers (signed permutation x unit upper triangular; "
                     "cases spread over instances).  Closure under composition / inverse: one inductive step on arbitrary matrices"),
        bounds=dict(polynomial_constructors="n<=3 (quick) / n<=4 (thorough); distances preserved checked for n<=2",
                    find_isometry_family="n<=2: origin_to, timelike_to, spacelike_to, reflection_across, TangentVector.origin_to (all stub cases in thorough, a spread of 4 in quick)",
                    tangent_transport="isometry_to and H^3 origin_to attempted in the thorough tier under a 25 min cap",
                    closure="n=2 (quick), n<=3 (thorough): all words by induction"),
        outside=["Coxeter hyperbolic_rep (see C08)", "find_isometry-based constructors for n>=3",
                 "TangentVector / Hyperplane constructions in H^1 (degenerate: see DESIGN.md findings)", "floating-point rounding"],
        assumptions=["interior points |x|^2<1; spacelike vectors <v,v> > 0; loxodromic parameter != 0; det A = +-1 via the charts a!=0 / a=0",
                     "angles via the rational parametrisation of the circle in two charts (theta and theta+pi): every angle",
                     "null-space stub: arbitrary basis (superset of LAPACK's orthonormal ones)"],
    )
