"""C17 -- the Lie-group maps are homomorphisms onto the groups they name."""
import numpy as np
from geometry_tools import lie, utils
from geometry_tools.lie import hom as liehom
from symnp import npmodels


def _mat(h, name, n, complex_=False, shape=()):
    return (h.carr if complex_ else h.arr)(name, shape + (n, n))


def _inv(h, A):
    return np.linalg.inv(A)


def _det(M):
    return npmodels.det_sym(M) if M.dtype == object else np.linalg.det(M)


def _nonsingular(h, A):
    for idx in np.ndindex(*A.shape[:-2]):
        d = _det(A[idx])
        h.assume(d != 0, 'invertible')


def _sl2(h, name, chart=0, complex_=False):
    """a symbolic 2x2 matrix of determinant one: chart 0: a != 0, d = (1+bc)/a ; chart 1: a = 0, c = -1/b"""
    v = h.cvar if complex_ else h.var
    if chart == 0:
        a, b, c = v(name + "a"), v(name + "b"), v(name + "c")
        h.assume(a != 0, 'chart a!=0')
        d = (1 + b * c) / a
    else:
        b, d = v(name + "b"), v(name + "d")
        h.assume(b != 0, 'chart a=0')
        a = h.const(0) if not complex_ else (h.const(0) + 0 * b)
        c = -1 / b
    M = np.empty((2, 2), dtype=object if h.is_sym() else (complex if complex_ else float))
    M[0, 0], M[0, 1], M[1, 0], M[1, 1] = a, b, c, d
    return M


MAPS = {
    'sl2_irrep2': (lambda A: lie.sl2_irrep(A, 2), 2, False, False),
    'sl2_irrep3': (lambda A: lie.sl2_irrep(A, 3), 2, False, False),
    'sl2_irrep4': (lambda A: lie.sl2_irrep(A, 4), 2, False, False),
    'sl2_irrep5': (lambda A: lie.sl2_irrep(A, 5), 2, False, False),
    'sl2_irrep6': (lambda A: lie.sl2_irrep(A, 6), 2, False, False),
    'sl2_to_so21': (lambda A: lie.sl2_to_so21(A), 2, False, False),
    'gln_adjoint2': (lambda A: lie.gln_adjoint(A), 2, False, True),
    'gln_adjoint3': (lambda A: lie.gln_adjoint(A), 3, False, True),
    'sln_adjoint2': (lambda A: lie.sln_adjoint(A), 2, False, True),
    'sln_adjoint3': (lambda A: lie.sln_adjoint(A), 3, False, True),
    'slc_to_slr2': (lambda A: lie.slc_to_slr(A), 2, True, False),
    'slc_to_slr3': (lambda A: lie.slc_to_slr(A), 3, True, False),
    'sl2c_to_so31': (lambda A: lie.sl2c_to_so31(A), 2, True, False),
    'block_include': (lambda A: lie.block_include(A, 4), 2, False, False),
    'hom.sl2_irrep4': (lambda A: liehom.sl2_irrep(4)(A), 2, False, False),
    'hom.sl2_to_so21': (lambda A: liehom.sl2_to_so21()(A), 2, False, False),
    'hom.gln_adjoint': (lambda A: liehom.gln_adjoint()(A, inv=np.linalg.inv(A)), 2, False, True),
    'hom.block_include': (lambda A: liehom.block_include(3)(A), 2, False, False),
    'hom.slc_to_slr': (lambda A: liehom.slc_to_slr()(A), 2, True, False),
}


def homomorphism(h, which='sl2_to_so21', shape=()):
    f, n, cplx, needs_inv = MAPS[which]
    A = _mat(h, 'A', n, cplx, shape)
    B = _mat(h, 'B', n, cplx, shape)
    if needs_inv:
        _nonsingular(h, A)
        _nonsingular(h, B)
    mk = h.mark()
    fa, fb = f(A.copy()), f(B.copy())
    fab = f(A @ B)
    h.defined(f"finite[{which}]", mk)          # no division except by the determinants assumed non-zero
    h.eq(f"hom[{which}]", fab, fa @ fb)
    I = np.zeros(shape + (n, n), dtype=A.dtype)
    for i in range(n):
        I[..., i, i] = 1
    fi = f(I)
    m = fi.shape[-1]
    J = np.zeros(fi.shape, dtype=fi.dtype)
    for i in range(m):
        J[..., i, i] = 1
    h.eq(f"identity[{which}]", fi, J)
    h.eq(f"shape[{which}]", np.array(fab.shape[:-2]), np.array(shape))
    if shape:
        # a stack behaves like its units
        for idx in np.ndindex(*shape):
            h.eq(f"unit{idx}[{which}]", fa[idx], f(A[idx].copy()))


def irrep_det(h, n=3, chart=0):
    A = _sl2(h, 'A', chart)
    R = lie.sl2_irrep(A, n)
    h.eq(f"det sl2_irrep{n} = 1", _det(R), 1)


def so21_form(h, chart=0):
    A = _sl2(h, 'A', chart)
    R = lie.sl2_to_so21(A)
    J = np.diag([-1, 1, 1])
    h.eq("R^T J R = J", R.T @ J @ R, J)
    h.eq("det = 1", _det(R), 1)


def so31_form(h, chart=0):
    A = _sl2(h, 'A', chart, complex_=True)
    R = lie.sl2c_to_so31(A)
    J = np.diag([-1, 1, 1, 1])
    h.eq("R^T J R = J", R.T @ J @ R, J)
    h.eq("image is real", np.imag(R) if not h.is_sym() else npmodels.model_imag(R), 0 * J[:R.shape[0], :R.shape[1]])


def killing(h, n=2):
    A = _mat(h, 'A', n)
    _nonsingular(h, A)
    Ad = lie.sln_adjoint(A)
    K = lie.sln_killing_form(n)
    h.eq(f"Ad^T K Ad = K (sl{n})", Ad.T @ K @ Ad, K)


def o_to_pgl_roundtrip(h, chart=0, sign=1):
    """o_to_pgl recovers a 2x2 matrix of determinant one (sign=1) from its image in O(2,1), up to sign"""
    a_, b_, c_ = h.var('a'), h.var('b'), h.var('c')
    if chart == 0:
        h.assume(a_ != 0, 'chart a != 0')
        a, b, c = a_, b_, c_
        d = (sign + b * c) / a
    else:
        h.assume(b_ != 0, 'chart a = 0')
        a, b, d = h.const(0) * a_, b_, c_
        c = -sign / b
    A = np.empty((2, 2), dtype=object if h.is_sym() else float)
    A[0, 0], A[0, 1], A[1, 0], A[1, 1] = a, b, c, d
    R = lie.sl2_to_so21(A.copy())
    Bm = lie.o_to_pgl(R)
    GEN = "no entry of A vanishes: o_to_pgl(sl2_to_so21(A)) is +-A or +-(swap-conjugate of A)"
    if h.is_sym():
        same = (Bm[0, 0] == a) & (Bm[0, 1] == b) & (Bm[1, 0] == c) & (Bm[1, 1] == d)
        neg = (Bm[0, 0] == -a) & (Bm[0, 1] == -b) & (Bm[1, 0] == -c) & (Bm[1, 1] == -d)
        same2 = (Bm[0, 0] == d) & (Bm[0, 1] == c) & (Bm[1, 0] == b) & (Bm[1, 1] == a)
        neg2 = (Bm[0, 0] == -d) & (Bm[0, 1] == -c) & (Bm[1, 0] == -b) & (Bm[1, 1] == -a)
        # independent of the known finding (which of the two conventions): any other answer is a new violation; also for determinant -1
        generic = (a != 0) & (b != 0) & (c != 0) & (d != 0)
        h.holds(GEN, (~generic) | same | neg | same2 | neg2)
        if sign != 1:
            return
        h.holds("o_to_pgl(sl2_to_so21(A)) = +-A", same | neg)
        # what the code actually computes (an automorphism of SL(2) applied to A: conjugation by the coordinate swap)
        same2 = (Bm[0, 0] == d) & (Bm[0, 1] == c) & (Bm[1, 0] == b) & (Bm[1, 1] == a)
        neg2 = (Bm[0, 0] == -d) & (Bm[0, 1] == -c) & (Bm[1, 0] == -b) & (Bm[1, 1] == -a)
        h.holds("o_to_pgl(sl2_to_so21(A)) = +-(swap-conjugate of A)", same2 | neg2)
    else:
        Bf = np.asarray(Bm, dtype=float)
        S = A[::-1, ::-1]
        Af = np.asarray(A, dtype=float)
        generic = bool(np.all(np.abs(Af) > 1e-6))
        h.holds(GEN, (not generic) or any(np.allclose(Bf, X, atol=1e-7) for X in (Af, -Af, Af[::-1, ::-1], -Af[::-1, ::-1])))
        if sign != 1:
            return
        h.holds("o_to_pgl(sl2_to_so21(A)) = +-A", bool(np.allclose(Bf, A, atol=1e-7) or np.allclose(Bf, -A, atol=1e-7)))
        S = A[::-1, ::-1]
        h.holds("o_to_pgl(sl2_to_so21(A)) = +-(swap-conjugate of A)", bool(np.allclose(Bf, S, atol=1e-7) or np.allclose(Bf, -S, atol=1e-7)))
