from .chplan import tables, ch_instances, sample, CH_TRUSTED

OP = [("o", "int"), ("a", "int"), ("b", "int"), ("c", "int")]
OP2 = [("o2", "int"), ("a2", "int"), ("b2", "int"), ("c2", "int")]


def plan(tier):
    q = tier == 'quick'
    I = []
    S, L = 2, 2
    T = tables(S, L)
    routes = [0, 1, 2, 3]
    cfg = [dict(route=r, t=t, S=S, L=L) for r in routes for t in (T if not q else sample(T, 27 if r < 2 else 9))]
    oppre = ["0 <= o < 7", "0 <= a < 3 and 0 <= b < 3", "1 <= c < 4"]
    I += ch_instances("history-depth1[2x2]", 'c09_history', OP, oppre, "B.c09_history({route}, {t}, [o, a, b, c], {S}, {L})", cfg, per_batch=4, timeout=150, weight=8)
    I += ch_instances("no-alias[2x2]", 'c09_no_alias', [("dummy", "int")], ["dummy == 0"], "B.c09_no_alias({route}, {t}, {S}, {L})",
                      [dict(route=r, t=t, S=S, L=L) for r in routes for t in T], per_batch=40, timeout=20, weight=3)
    # depth 2: first operation is part of the configuration slice
    d2 = [dict(route=r, t=t, S=S, L=L, o1=o1, a1=a1, b1=b1, c1=c1) for r in (0, 1) for t in sample(T, 9 if q else 27)
          for (o1, a1, b1, c1) in [(1, 0, 1, 2), (1, 1, 0, 1), (2, 0, 1, 3), (3, 1, 0, 1), (0, 2, 0, 1), (5, 0, 0, 1), (4, 0, 0, 1)]]
    I += ch_instances("history-depth2[2x2]", 'c09_history', OP, oppre,
                      "B.c09_history({route}, {t}, [{o1}, {a1}, {b1}, {c1}, o, a, b, c], {S}, {L})", d2 if not q else sample(d2, 20), per_batch=4, timeout=150, weight=8)
    if not q:
        T3 = sample(tables(3, 2), 200)
        I += ch_instances("history-depth1[3x2]", 'c09_history', OP, ["0 <= o < 7", "0 <= a < 4 and 0 <= b < 4", "1 <= c < 4"],
                          "B.c09_history({route}, {t}, [o, a, b, c], 3, 2)", [dict(route=r, t=t) for r in (0, 1) for t in T3], per_batch=4, timeout=200, weight=10)
        d3 = [dict(route=0, t=t, S=S, L=L, o1=o1, a1=a1, b1=b1, c1=c1, o2=o2, a2=a2, b2=b2, c2=c2) for t in sample(T, 9)
              for (o1, a1, b1, c1) in [(1, 0, 1, 2), (2, 1, 0, 3), (3, 1, 0, 1)] for (o2, a2, b2, c2) in [(1, 1, 0, 1), (5, 0, 0, 1), (4, 0, 0, 1), (0, 2, 0, 0)]]
        I += ch_instances("history-depth3[2x2]", 'c09_history', OP, oppre,
                          "B.c09_history({route}, {t}, [{o1}, {a1}, {b1}, {c1}, {o2}, {a2}, {b2}, {c2}, o, a, b, c], {S}, {L})", d3, per_batch=4, timeout=150, weight=8)
    # kbmag records: table entries are the configuration, initial state / spacing / interval syntax symbolic
    K = [list(t) for t in __import__('itertools').product(range(0, 3), repeat=4)]
    I += ch_instances("kbmag[2 states x 2 letters]", 'c09_kbmag', [("initial", "int"), ("spacing", "int"), ("interval", "bool")],
                      ["1 <= initial <= 2", "0 <= spacing < 3"], "B.c09_kbmag({t}, initial, 2, 2, spacing, interval)", [dict(t=t) for t in K], per_batch=12, timeout=40, weight=4)
    if not q:
        K3 = sample([list(t) for t in __import__('itertools').product(range(0, 4), repeat=6)], 150)
        I += ch_instances("kbmag[3 states x 2 letters]", 'c09_kbmag', [("initial", "int"), ("spacing", "int"), ("interval", "bool")],
                          ["1 <= initial <= 3", "0 <= spacing < 3"], "B.c09_kbmag({t}, initial, 3, 2, spacing, interval)", [dict(t=t) for t in K3], per_batch=12, timeout=40, weight=4)
    return dict(
        instances=I,
        explanation=("bounded symbolic verification with CrossHair: the REAL fsa.FSA is constructed by each route (label->target dict, target->labels dict, "
                     "deep copy, non-in-place relabelling) from a concrete table (configuration slice), then a symbolic operation (op code, two vertex "
                     "arguments, label / label-set argument) -- preceded in the depth-2/3 slices by concrete operations -- is applied both to the automaton and "
                     "to a plain set model; after every step graph_dict, out_dict, in_dict, edges(), edges_out/in, neighbors_out/in must equal the set "
                     "model with no duplicates.  The 'out and in label lists are distinct objects' representation invariant is checked for every constructed "
                     "state, which makes the depth-1 step from an arbitrary constructed state an inductive step.  kbmag: records rendered from a table "
                     "with symbolic initial state, spacing variant and interval syntax are parsed by the real gap_parse / _from_gap_record and compared with the table"),
        bounds=dict(universe="vertices {0,1,2}, labels {a,b}", tables="2 states x 2 labels: spread sample of 27 (routes dict/out-dict) + 9 (copy/relabel) tables in quick, all 81 x 4 routes in thorough; the no-alias invariant for all 324 in both tiers", history_depth="1 symbolic op after 0/1 concrete ops (quick), up to 2 concrete ops + 3x2 tables (thorough)",
                    ops="add_vertices, add_edges (single), add_edges (elist), delete_vertex, delete_vertices, recurrent(inplace), rename_generators(inplace)", kbmag="2x2 tables (all 81), 3x2 sample in thorough"),
        outside=["symbolic record TEXT (regex on symbolic str is inconclusive in CrossHair): the text is a concrete rendering of the table with symbolic parameters",
                 "built-in files (loaded concretely elsewhere)", "edges that would make the automaton non-deterministic (label view cannot represent them) are excluded by precondition"],
        assumptions=["operations keep the automaton deterministic (documented model of the label view)"],
        trusted_base=CH_TRUSTED,
        rule="one evaluation = one (condition, configuration) slice decided by CrossHair over its symbolic arguments; non-trivial = 'Confirmed over all paths' with the reachability twin refuted",
    )
