#!/usr/bin/env python
"""run one property check:  run_check.py <ID> <quick|thorough>   |   run_check.py --replay <file>

Distributes the harness instances registered for the property over worker processes (hard wall-clock cap
each), aggregates their statistics, writes /verif/evidence/<ID>.json, prints VIOLATION / KNOWN-FINDING lines.
Exit 0 = held on everything explored; 1 = replayed violation not listed in known_findings.json;
2 = harness error (worker crash, translator-validation mismatch, counterexample that does not replay).
"""
import json
import os
import subprocess
import sys
import tempfile
import time

HERE = os.path.dirname(os.path.abspath(__file__))
sys.path.insert(0, HERE)
OUT = os.environ.get('VERIF_OUT', HERE)      # evidence/ and replays/ live here (the mutation self-test redirects it)
PY = os.path.join(HERE, '.venv', 'bin', 'python')


def load_known():
    p = os.path.join(HERE, 'known_findings.json')
    if not os.path.exists(p):
        return []
    return json.load(open(p)).get('findings', [])


def matches(entry, prop, inst_name, viol):
    if entry.get('property') != prop or entry.get('status') != 'known':
        return False
    m = entry.get('match', {})
    if 'instance_prefix' in m and not inst_name.startswith(m['instance_prefix']):
        return False
    if 'goal_prefix' in m and not str(viol.get('goal', '')).startswith(m['goal_prefix']):
        return False
    if 'exc_contains' in m and m['exc_contains'] not in str(viol.get('exc', '')) + str(viol.get('detail', '')):
        return False
    return True


def run_instances(instances, tier, jobs=None):
    jobs = jobs or int(os.environ.get('VERIF_JOBS', os.cpu_count() or 4))
    tmp = tempfile.mkdtemp(prefix='vchk_', dir=os.environ.get('VERIF_TMP', None))
    pending = list(enumerate(instances))
    # longest first
    pending.sort(key=lambda t: -t[1].get('weight', 1))
    running = []
    results = [None] * len(instances)
    env = dict(os.environ)
    env['PYTHONPATH'] = HERE + os.pathsep + env.get('PYTHONPATH', '')
    env.setdefault('PYTHONHASHSEED', '0')
    while pending or running:
        while pending and len(running) < jobs:
            i, inst = pending.pop(0)
            spec = os.path.join(tmp, f"{i}.spec.json")
            out = os.path.join(tmp, f"{i}.out.json")
            json.dump(inst, open(spec, 'w'))
            log = open(os.path.join(tmp, f"{i}.log"), 'w')
            p = subprocess.Popen([PY, '-m', 'symnp.worker', spec, out], cwd=HERE, env=env, stdout=log, stderr=subprocess.STDOUT)
            running.append((i, inst, p, time.time(), out, log))
        time.sleep(0.05)
        still = []
        for i, inst, p, t0, out, log in running:
            rc = p.poll()
            cap = inst.get('timeout_s', 300)
            if rc is None and time.time() - t0 > cap:
                p.kill()
                p.wait()
                results[i] = dict(ok=True, timed_out=True, wall_s=time.time() - t0)
                log.close()
                continue
            if rc is None:
                still.append((i, inst, p, t0, out, log))
                continue
            log.close()
            if os.path.exists(out):
                results[i] = json.load(open(out))
            else:
                txt = open(log.name).read()[-2000:]
                results[i] = dict(ok=False, error=f"worker exited with {rc}", tb=txt, wall_s=time.time() - t0)
        running = still
    try:
        import shutil
        shutil.rmtree(tmp)
    except OSError:
        pass
    return results


SUM_KEYS = ['paths', 'vacuous_paths', 'paths_validated', 'paths_not_validated', 'obligations', 'discharged',
            'closed_by_normal_form', 'closed_by_construction', 'solver_unsat', 'goal_queries', 'branch_queries']


def main():
    if sys.argv[1] == '--replay':
        return replay(sys.argv[2])
    prop, tier = sys.argv[1], (sys.argv[2] if len(sys.argv) > 2 else os.environ.get('VERIF_TIER', 'quick'))
    seed = int(os.environ.get('VERIF_SEED', '0'))
    t0 = time.time()
    from harness import registry
    spec = registry.get(prop, tier)
    instances = spec['instances']
    only = os.environ.get('VERIF_ONLY')
    if only:
        instances = [i for i in instances if only in i['name']]
    if seed:
        import random
        random.Random(seed).shuffle(instances)
    results = run_instances(instances, tier)
    known = load_known()

    agg = {k: 0 for k in SUM_KEYS}
    solver_s = 0.0
    inconclusive, violations, harness_errors, samples, functions, stubs, float_sites = [], [], [], [], set(), set(), set()
    per_instance = []
    nontrivial = 0
    for inst, r in zip(instances, results):
        name = inst['name']
        row = dict(name=name, wall_s=round(r.get('wall_s', 0), 2))
        if r.get('timed_out'):
            inconclusive.append(dict(instance=name, reason=f"wall-clock cap {inst.get('timeout_s', 300)}s"))
            row['status'] = 'timeout'
            per_instance.append(row)
            continue
        if not r.get('ok'):
            harness_errors.append(dict(instance=name, error=r.get('error'), tb=r.get('tb')))
            row['status'] = 'error'
            per_instance.append(row)
            continue
        for k in SUM_KEYS:
            agg[k] += r.get(k, 0)
        solver_s += r.get('goal_solver_s', 0) + r.get('branch_solver_s', 0)
        for x in r.get('inconclusive', []):
            x = dict(x)
            x['instance'] = name
            x.pop('tb', None) if len(inconclusive) > 20 else None
            inconclusive.append(x)
        for x in r.get('violations', []):
            x = dict(x)
            x['instance'] = name
            x['spec'] = {k: inst[k] for k in ('kind', 'module', 'func', 'params') if k in inst}
            violations.append(x)
        for x in r.get('translation_mismatch', []):
            harness_errors.append(dict(instance=name, error='translator validation mismatch', detail=x))
        for x in r.get('unconfirmed', []):
            harness_errors.append(dict(instance=name, error='counterexample did not replay on the real code', detail=x))
        for s in r.get('samples', [])[:2]:
            s = dict(s)
            s['instance'] = name
            samples.append(s)
        functions.update(r.get('functions', []))
        stubs.update(r.get('stubs', []))
        float_sites.update(r.get('float_sites', []))
        nt = r.get('nontrivial', r.get('paths', 0) - r.get('vacuous_paths', 0))
        nontrivial += nt
        row.update(status='ok', paths=r.get('paths', 0), obligations=r.get('obligations', 0), discharged=r.get('discharged', 0),
                   inconclusive=len(r.get('inconclusive', [])), violations=len(r.get('violations', [])))
        per_instance.append(row)

    # ---- violations vs known findings
    os.makedirs(os.path.join(OUT, 'replays'), exist_ok=True)
    new_violations = []
    known_hits = {}
    for v in violations:
        hit = next((e for e in known if matches(e, prop, v['instance'], v)), None)
        if hit is not None:
            known_hits.setdefault(hit['id'], (hit, v))
        else:
            new_violations.append(v)
    for hid, (hit, v) in known_hits.items():
        print(f"KNOWN-FINDING: property={prop} {hit['what']}")
    seen = set()
    vio_files = []
    for v in new_violations:
        key = (v['instance'], v.get('goal'))
        if key in seen:
            continue
        seen.add(key)
        path = os.path.join(OUT, 'replays', f"{prop}-{len(vio_files)}.json")
        json.dump(v, open(path, 'w'), indent=1, default=str)
        vio_files.append(path)
        print(f"VIOLATION property={prop} replay={path}")
        print(f"  instance={v['instance']} goal={v.get('goal')} env={v.get('env')} {str(v.get('detail', v.get('exc', '')))[:300]}")

    wall = time.time() - t0
    ev = dict(
        property_id=prop, tier=tier, seed=seed, level='other',
        coverage=dict(
            explanation=spec['explanation'],
            obligations=agg['obligations'], discharged=agg['discharged'],
            closed_by_normal_form=agg['closed_by_normal_form'], closed_by_construction=agg['closed_by_construction'],
            solver_unsat=agg['solver_unsat'], solver_queries=agg['goal_queries'] + agg['branch_queries'],
            solver_time_s=round(solver_s, 2),
            paths=agg['paths'], vacuous_paths=agg['vacuous_paths'], paths_validated_against_real_code=agg['paths_validated'],
            paths_not_validated=agg['paths_not_validated'],
            evaluations=max(1, agg['paths']), distinct_nontrivial=nontrivial,
            rule=spec.get('rule', "one evaluation = one explored path of one harness instance; non-trivial = the path condition is "
                          "satisfiable (reachability witness found) and the path carries at least one goal; distinct by (instance, decision trace)"),
            samples=samples[:8] or [dict(note="no discharged goal sample")],
            inconclusive=inconclusive[:60], inconclusive_count=len(inconclusive),
            functions_encoded=sorted(functions), stubs=sorted(stubs), float_concretisation_sites=sorted(float_sites),
            bounds=spec['bounds'], outside_claim=spec.get('outside', []),
            instances=per_instance,
            checker_cmd=f"./vcheck {prop} {tier}", trusted_base=spec.get('trusted_base', TRUSTED),
            known_findings_reported=sorted(known_hits), harness_errors=harness_errors[:10],
        ),
        assumptions=spec.get('assumptions', []),
        wall_s=round(wall, 2),
        violations=len(vio_files),
    )
    os.makedirs(os.path.join(OUT, 'evidence'), exist_ok=True)
    json.dump(ev, open(os.path.join(OUT, 'evidence', f"{prop}.json"), 'w'), indent=1, default=str)
    print(f"[{prop} {tier}] instances={len(instances)} paths={agg['paths']} obligations={agg['obligations']} discharged={agg['discharged']} "
          f"(normal-form {agg['closed_by_normal_form']}, solver-unsat {agg['solver_unsat']}, by-construction {agg['closed_by_construction']}) "
          f"inconclusive={len(inconclusive)} violations={len(vio_files)} known={len(known_hits)} harness_errors={len(harness_errors)} wall={wall:.1f}s")
    if vio_files:
        return 1
    if harness_errors:
        for h in harness_errors[:5]:
            print("HARNESS-ERROR", json.dumps(h, default=str)[:1500])
        return 2
    if agg['discharged'] == 0:
        print("HARNESS-ERROR nothing discharged")
        return 2
    return 0


TRUSTED = ["z3 5.1.0 (QF_NRA / nlsat) for every solver verdict", "sympy 1.14 sparse polynomial arithmetic + symnp relation rewriting (normal-form front end)",
           "NumPy object-array dispatch to element operators", "symnp models of numpy.linalg.inv/det/norm and array constructors"]


def replay(path):
    v = json.load(open(path))
    spec = v['spec']
    repo = os.environ.get('VERIF_REPO', '/repo')
    code = (
        "import sys, json, importlib; sys.path.insert(0, %r); sys.path.insert(1, %r)\n"
        "from symnp import api, transc\n"
        "from symnp.worker import _tuplify\n"
        "v = json.load(open(%r)); spec = v['spec']\n"
        "fn = getattr(importlib.import_module(spec['module']), spec['func'])\n"
        "if spec.get('kind', 'symnp') == 'symnp':\n"
        "    r = api.run_concrete(fn, _tuplify(spec.get('params', {})), v['env'])\n"
        "    bad = [g for g in r['goals'] if not g['ok']]\n"
        "    print('status', r['status'], r.get('exc', ''))\n"
        "    print('failing goals', [(g['name'], str(g.get('a'))[:200], str(g.get('b'))[:200]) for g in bad])\n"
        "    sys.exit(1 if bad or r['status'] == 'exception' else 0)\n"
        "else:\n"
        "    mod = importlib.import_module(spec['module'])\n"
        "    sys.exit(mod.replay(v))\n" % (repo, HERE, path))
    return subprocess.call([PY, '-c', code], cwd=HERE)


if __name__ == '__main__':
    sys.exit(main())
